/*
 * C20 demo 2: the context's poll handle (and the module/context memory) is never released
 * when a module is bound, from its own on_stop() callback, while it is being deregistered.
 *
 * m_mod_deregister() stops the module (stop() -> reset_module() empties bound_mods), then runs
 * on_stop() while the module is still "STOPPED" (not yet ZOMBIE), so m_mod_bind() is accepted.
 * The reference taken by the binding lives in the module's own bound_mods list, that is only
 * emptied by the next stop() - there is none - or by module_dtor() - that never runs because
 * of that very reference. The module keeps its context alive, the context keeps its epoll fd.
 */
#include <module/ctx.h>
#include <module/mod.h>
#include <module/mem/mem.h>
#include <stdio.h>
#include <unistd.h>
#include <fcntl.h>

static int bind_ret = 1;

static int count_fds(void) {
    int n = 0;
    for (int fd = 0; fd < 1024; fd++) n += fcntl(fd, F_GETFD) != -1;
    return n;
}

static void show_fds(void) {
    for (int fd = 0; fd < 1024; fd++) {
        if (fcntl(fd, F_GETFD) != -1) {
            char p[64], l[128] = { 0 };
            snprintf(p, sizeof(p), "/proc/self/fd/%d", fd);
            if (readlink(p, l, sizeof(l) - 1) > 0) printf("    fd %d -> %s\n", fd, l);
        }
    }
}

static void on_evt(m_mod_t *m, const m_queue_t *const evts) { (void)m; (void)evts; }

/* "follow my own state changes": pointless, but a valid call on a valid, non-zombie module */
static void on_stop(m_mod_t *m) { bind_ret = m_mod_bind(m, m); }

static int run(int with_bind) {
    const int base = count_fds();
    m_mod_hook_t hook = { NULL, NULL, on_evt, with_bind ? on_stop : NULL };
    m_mod_t *mod = NULL;

    m_ctx_register("ctx", 0, NULL);
    m_mod_register("mod", &mod, &hook, 0, NULL);
    m_mod_start(mod);
    m_mod_deregister(&mod);     /* drops the user's reference; last module: the idle context is deregistered too */

    printf("  m_mod_bind() in on_stop returned %d; user's module ref is %p; m_ctx_name() is %s\n",
           with_bind ? bind_ret : -1, (void *)mod, m_ctx_name() ? m_ctx_name() : "(null: context deregistered)");
    const int now = count_fds();
    printf("  open descriptors: %d at start, %d now\n", base, now);
    if (now != base) show_fds();
    return now - base;
}

int main(void) {
    setvbuf(stdout, NULL, _IOLBF, 0);   /* LeakSanitizer _exit()s without flushing stdio */
    printf("control (no bind in on_stop):\n");
    int leaked = run(0);
    printf("bind in on_stop while being deregistered:\n");
    leaked += run(1);
    printf(leaked ? "FAIL: %d library descriptor(s) left open with no way to release them\n" : "PASS\n", leaked);
    return leaked != 0;
}

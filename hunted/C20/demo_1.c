/*
 * C20 demo 1: a descriptor registered with M_SRC_DUP | M_SRC_FD_AUTOCLOSE is never closed.
 *
 * The library polls (and later closes) its private duplicate, but the descriptor the user
 * handed over with the auto-close flag stays open for ever: after deregistration of the
 * source, after the module stopped, after module and context are gone.
 */
#include <module/ctx.h>
#include <module/mod.h>
#include <module/mem/mem.h>
#include <stdio.h>
#include <unistd.h>
#include <fcntl.h>

static int fails;

static int is_open(int fd) { return fcntl(fd, F_GETFD) != -1; }

static int count_fds(void) {
    int n = 0;
    for (int fd = 0; fd < 1024; fd++) n += is_open(fd);
    return n;
}

static void expect(const char *what, int got, int want) {
    printf("%-74s %s (got %d, want %d)\n", what, got == want ? "ok  " : "FAIL", got, want);
    if (got != want) fails++;
}

static void on_evt(m_mod_t *m, const m_queue_t *const evts) { (void)m; (void)evts; }

int main(void) {
    setvbuf(stdout, NULL, _IOLBF, 0);
    const int base = count_fds();
    m_mod_hook_t hook = { NULL, NULL, on_evt, NULL };
    m_mod_t *mod = NULL;
    int a[2], b[2], c[2], d[2];
    if (pipe(a) || pipe(b) || pipe(c) || pipe(d)) return 2;

    m_ctx_register("ctx", 0, NULL);
    m_mod_register("mod", &mod, &hook, 0, NULL);
    m_mod_start(mod);

    /* control 1: auto-close alone, deregistered at runtime -> closed */
    expect("register a[0] AUTOCLOSE", m_mod_src_register_fd(mod, a[0], M_SRC_FD_AUTOCLOSE, NULL), 0);
    expect("deregister a[0]", m_mod_src_deregister_fd(mod, a[0]), 0);
    expect("a[0] open after deregistration (AUTOCLOSE)", is_open(a[0]), 0);

    /* control 2: duplicate alone -> user's fd untouched, library's duplicate closed */
    int before = count_fds();
    expect("register b[0] DUP", m_mod_src_register_fd(mod, b[0], M_SRC_DUP, NULL), 0);
    expect("fds while b[0] is registered with DUP (one duplicate)", count_fds(), before + 1);
    expect("deregister b[0]", m_mod_src_deregister_fd(mod, b[0]), 0);
    expect("fds after deregistration (duplicate closed)", count_fds(), before);
    expect("b[0] open after deregistration (DUP, no AUTOCLOSE)", is_open(b[0]), 1);

    /* the mix: duplicate + auto-close, deregistered at runtime */
    before = count_fds();
    expect("register c[0] DUP|AUTOCLOSE", m_mod_src_register_fd(mod, c[0], M_SRC_DUP | M_SRC_FD_AUTOCLOSE, NULL), 0);
    expect("deregister c[0]", m_mod_src_deregister_fd(mod, c[0]), 0);
    expect("c[0] open after deregistration (DUP|AUTOCLOSE)", is_open(c[0]), 0);
    expect("fds after deregistration (duplicate and c[0] closed)", count_fds(), before - 1);

    /* the mix again, source dropped by module stop / deregistration, context released */
    expect("register d[0] DUP|AUTOCLOSE", m_mod_src_register_fd(mod, d[0], M_SRC_DUP | M_SRC_FD_AUTOCLOSE, NULL), 0);
    expect("stop module", m_mod_stop(mod), 0);
    expect("d[0] open after module stop (DUP|AUTOCLOSE)", is_open(d[0]), 0);
    expect("deregister module (releases the context too)", m_mod_deregister(&mod), 0);
    expect("context gone", m_ctx_name() == NULL, 1);
    expect("d[0] open after module and context are gone", is_open(d[0]), 0);

    /* what the user still legitimately owns: a[1] b[0] b[1] c[1] d[1] */
    close(a[1]); close(b[0]); close(b[1]); close(c[1]); close(d[1]);
    expect("descriptors left open at the end, compared with program start", count_fds(), base);

    printf(fails ? "FAIL: %d check(s) failed\n" : "PASS\n", fails);
    return fails != 0;
}

/*
 * C16 finding 1: a stashed event does not come back "with its original content":
 * its userdata dangles after the subscription's M_SRC_AUTOFREE userptr is updated.
 *
 * Build/run: see README.md. Under ASan: heap-use-after-free in the handler run by m_mod_unstash().
 * Without a sanitizer the program compares the redelivered userdata with a canary and prints FAIL.
 */
#include <module/ctx.h>
#include <module/mod.h>
#include <stdio.h>
#include <stdlib.h>
#include <string.h>

static m_mod_t *mod;
static int phase;
static int fails;

static void on_evt(m_mod_t *m, const m_queue_t *const evts) {
    m_itr_foreach(evts, {
        m_evt_t *e = m_itr_get(m_itr);
        if (e->type != M_SRC_TYPE_PS || e->ps_evt->system) {
            continue;
        }
        if (phase == 0) {
            /* first delivery: userdata is the subscription's userptr */
            printf("delivered : data=%s userdata=%p \"%s\"\n", (char *)e->ps_evt->data, e->userdata, (char *)e->userdata);
            printf("m_mod_stash -> %d\n", m_mod_stash(m, e));
            phase = 1;
        } else {
            /* redelivery through m_mod_unstash(): same event, same userdata pointer... */
            printf("redelivered: data=%s userdata=%p\n", (char *)e->ps_evt->data, e->userdata);
            /* ...but the memory it points to is gone: ASan reports heap-use-after-free here */
            if (strcmp((const char *)e->userdata, "first-userptr") != 0) {
                printf("FAIL: stashed event came back with userdata pointing to freed memory\n");
                fails++;
            }
        }
    });
}

int main(void) {
    setvbuf(stdout, NULL, _IONBF, 0);
    m_ctx_register("ctx", M_CTX_PERSIST, NULL);
    m_mod_hook_t hook = { .on_evt = on_evt };
    m_mod_register("mod", &mod, &hook, 0, NULL);
    m_mod_start(mod);
    m_ctx_dispatch(); /* starts the loop */

    /* subscription owns its userptr (M_SRC_AUTOFREE) */
    m_mod_ps_subscribe(mod, "topic", M_SRC_AUTOFREE, strdup("first-userptr"));
    m_mod_ps_publish(mod, "topic", "msg", 0);
    m_ctx_dispatch();
    m_ctx_dispatch();

    /* Subscribing again with the same flags updates the userptr in place (ps.c: "Only update userptr") and frees the old one */
    m_mod_ps_subscribe(mod, "topic", M_SRC_AUTOFREE, strdup("second-userptr"));

    ssize_t n = m_mod_unstash(mod, 1);
    printf("m_mod_unstash(1) -> %zd\n", n);

    /* orderly shutdown: stop the loop, then drop module and context */
    m_ctx_quit(0);
    m_ctx_dispatch();
    m_mod_deregister(&mod);
    int dr = m_ctx_deregister();
    if (dr != 0) {
        printf("m_ctx_deregister -> %d\n", dr);
    }
    printf("%s\n", fails ? "FAIL" : "OK");
    return fails != 0;
}

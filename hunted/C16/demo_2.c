/*
 * C16 finding 2: when an allocation fails inside m_mod_unstash() / m_mod_stash()
 * (allocator installed through the public m_set_memhook()), a stashed event is
 * neither redelivered nor kept in the stash: it is lost, and leaked together with
 * everything it references (here: the whole sender module and its context).
 *
 *   ./demo          allocation failure inside m_mod_unstash()   -> FAIL, exit 1
 *   ./demo stash    allocation failure inside m_mod_stash()     -> FAIL, exit 1
 *   ./demo none     control run, no failure injected            -> OK,   exit 0
 *
 * LeakSanitizer additionally reports the leak (ASAN_OPTIONS=detect_leaks=0 to silence it).
 */
#include <module/ctx.h>
#include <module/mod.h>
#include <stdio.h>
#include <stdlib.h>
#include <string.h>
#include <errno.h>

static int fail_at = -1;     /* fail the fail_at-th calloc from now on (0 = next one), once */
static long live;            /* blocks handed out by the hooks and not given back yet */
static void *my_calloc(size_t n, size_t s) {
    if (fail_at >= 0 && fail_at-- == 0) {
        errno = ENOMEM;
        return NULL;
    }
    void *p = calloc(n, s);
    live += p != NULL;
    return p;
}
static void *my_malloc(size_t s) {
    void *p = malloc(s);
    live += p != NULL;
    return p;
}
static void my_free(void *p) {
    live -= p != NULL;
    free(p);
}

enum { STASH_ALL, STASH_FAILING, RECORD };
static m_mod_t *mod;
static int mode = STASH_ALL;
static char got[64];
static int fails;

static void on_evt(m_mod_t *m, const m_queue_t *const evts) {
    m_itr_foreach(evts, {
        m_evt_t *e = m_itr_get(m_itr);
        if (e->type != M_SRC_TYPE_PS || e->ps_evt->system) {
            continue;
        }
        const char *name = (const char *)e->ps_evt->data;
        if (mode == STASH_ALL) {
            int r = m_mod_stash(m, e);
            if (r) {
                printf("unexpected: stash failed %d\n", r);
                fails++;
            }
        } else if (mode == STASH_FAILING) {
            /* the only calloc() in m_mod_stash() is the stash queue element: let it fail */
            fail_at = 0;
            int r = m_mod_stash(m, e);
            fail_at = -1;
            printf("m_mod_stash(\"%s\") with failing allocation -> %d (%s)\n", name, r, strerror(-r));
        } else {
            strcat(got, name);
        }
    });
}

static void pump(void) {
    for (int i = 0; i < 5; i++) {
        m_ctx_dispatch();
    }
}

int main(int argc, char *argv[]) {
    const char *scenario = argc > 1 ? argv[1] : "unstash";
    setvbuf(stdout, NULL, _IONBF, 0);
    m_set_memhook(my_malloc, my_calloc, my_free);
    m_ctx_register("ctx", M_CTX_PERSIST, NULL);
    m_mod_hook_t hook = { .on_evt = on_evt };
    m_mod_register("mod", &mod, &hook, 0, NULL);
    m_mod_start(mod);
    m_ctx_dispatch();

    if (!strcmp(scenario, "stash")) {
        mode = STASH_FAILING;
        m_mod_ps_tell(mod, mod, "A", 0);
        pump();
        mode = RECORD;
        ssize_t r = m_mod_unstash(mod, SIZE_MAX);
        printf("m_mod_unstash(SIZE_MAX) -> %zd (the refused event is not in the stash, as expected)\n", r);
    } else {
        m_mod_ps_tell(mod, mod, "A", 0);
        m_mod_ps_tell(mod, mod, "B", 0);
        m_mod_ps_tell(mod, mod, "C", 0);
        pump();
        /* A, B, C are stashed now */
        mode = RECORD;
        if (!strcmp(scenario, "unstash")) {
            /*
             * calloc()s performed by m_mod_unstash(mod, 3):
             *   #0 delivery queue, #1 iterator, #2 queue element for A, #3 for B, #4 for C.
             * Let #3 fail.
             */
            fail_at = 3;
        }
        ssize_t r = m_mod_unstash(mod, 3);
        fail_at = -1;
        printf("m_mod_unstash(3)        -> %zd, handler got \"%s\"\n", r, got);
        got[0] = 0;
        ssize_t r2 = m_mod_unstash(mod, SIZE_MAX);
        printf("m_mod_unstash(SIZE_MAX) -> %zd, handler got \"%s\"\n", r2, got);
        if (r + r2 != 3) {
            printf("FAIL: 3 events were stashed, %zd came back, none is left: B was neither redelivered nor kept\n", r + r2);
            fails++;
        }
    }

    /* orderly shutdown: stop the loop, then drop module and context */
    m_ctx_quit(0);
    m_ctx_dispatch();
    m_mod_deregister(&mod);
    int dr = m_ctx_deregister();
    if (dr != 0) {
        printf("m_ctx_deregister -> %d\n", dr);
    }
    printf("blocks still allocated after module and context are gone: %ld\n", live);
    if (live != 0) {
        printf("FAIL: the event that was dropped is leaked, and the module + context it references with it\n");
        fails++;
    }
    printf("%s\n", fails ? "FAIL" : "OK");
    return fails != 0;
}

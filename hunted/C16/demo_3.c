/*
 * C16 finding 3: a RUNNING module registered with M_MOD_DENY_CTX cannot stash a
 * normal-priority event (nor unstash) from its own handler: both fail with -EPERM.
 * M_MOD_DENY_CTX is documented to deny the *context* API only.
 *
 * Exits 1 and prints FAIL on the unmodified library.
 */
#include <module/ctx.h>
#include <module/mod.h>
#include <stdio.h>
#include <string.h>

static m_mod_t *mod;
static int fails, seen, redelivered;
static int in_unstash;

static void on_evt(m_mod_t *m, const m_queue_t *const evts) {
    m_itr_foreach(evts, {
        m_evt_t *e = m_itr_get(m_itr);
        if (e->type != M_SRC_TYPE_PS || e->ps_evt->system) {
            continue;
        }
        if (in_unstash) {
            redelivered++;
            continue;
        }
        seen++;
        printf("handler: module is %s, event \"%s\" comes from a direct tell (normal priority)\n",
               m_mod_is(m, M_MOD_RUNNING) ? "RUNNING" : "not running", (const char *)e->ps_evt->data);
        int r = m_mod_stash(m, e);
        printf("m_mod_stash      -> %d (%s)\n", r, r ? strerror(-r) : "ok");
        if (r != 0) {
            fails++;
        }
        in_unstash = 1;
        ssize_t n = m_mod_unstash(m, 1);
        in_unstash = 0;
        printf("m_mod_unstash(1) -> %zd, redelivered %d\n", n, redelivered);
        if (n != 1 || redelivered != 1) {
            fails++;
        }
    });
}

int main(void) {
    setvbuf(stdout, NULL, _IONBF, 0);
    m_ctx_register("ctx", M_CTX_PERSIST, NULL);
    m_mod_hook_t hook = { .on_evt = on_evt };
    m_mod_register("mod", &mod, &hook, M_MOD_DENY_CTX, NULL);
    m_mod_start(mod);
    m_ctx_dispatch();
    m_mod_ps_tell(mod, mod, "A", 0);
    m_ctx_dispatch();
    m_ctx_dispatch();
    if (!seen) {
        printf("event never delivered?\n");
        fails++;
    }
    /* orderly shutdown: stop the loop, then drop module and context */
    m_ctx_quit(0);
    m_ctx_dispatch();
    m_mod_deregister(&mod);
    int dr = m_ctx_deregister();
    if (dr != 0) {
        printf("m_ctx_deregister -> %d\n", dr);
    }
    printf("%s\n", fails ? "FAIL" : "OK");
    return fails != 0;
}

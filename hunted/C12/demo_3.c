/*
 * C12 finding 3: after m_list_itr_insert() the following m_list_itr_next() steps back onto the
 * element that was already visited (the one the new node was inserted in front of).
 * "Insert something in front of element A when the walk meets A" therefore meets A again,
 * inserts again, ... and never terminates; with two inserts one of the freshly inserted
 * nodes is visited and the other is not. No element is visited "exactly once".
 */
#include <stdio.h>
#include <stdlib.h>
#include <sys/types.h>
#include <module/structs/list.h>

static int print_cb(void *up, void *d) { (void)up; printf(" %s", (char *)d); return 0; }

int main(void) {
    static char A[] = "A", B[] = "B", C[] = "C";
    static char X[8][4] = { "X0", "X1", "X2", "X3", "X4", "X5", "X6", "X7" };
    int fails = 0;
    setvbuf(stdout, NULL, _IONBF, 0);

    /* ---- scenario 1: one insert in front of B ---- */
    m_list_t *l = m_list_new(NULL, NULL);
    m_list_insert(l, C); m_list_insert(l, B); m_list_insert(l, A);    /* list: A B C */

    int seen_A = 0, seen_B = 0, seen_C = 0, nx = 0, steps = 0;
    printf("scenario 1 walk:");
    for (m_list_itr_t *itr = m_list_itr_new(l); itr; m_list_itr_next(&itr)) {
        char *cur = m_list_itr_get_data(itr);
        printf(" %s", cur);
        seen_A += cur == A; seen_B += cur == B; seen_C += cur == C;
        if (cur == B) {
            m_list_itr_insert(itr, X[nx++]);       /* put a marker in front of B */
        }
        if (++steps == 8) {                        /* would spin forever: cut it */
            printf(" ... (cut after %d steps)", steps);
            while (itr) m_list_itr_next(&itr);     /* only way to release an iterator */
            break;
        }
    }
    printf("\n  visits: A=%d B=%d C=%d, markers inserted=%d, list now:", seen_A, seen_B, seen_C, nx);
    m_list_iterate(l, print_cb, NULL);
    printf("\n");
    if (seen_B != 1 || seen_C != 1 || nx != 1) {
        printf("FAIL: B visited %d times, C visited %d times (expected 1 and 1)\n", seen_B, seen_C);
        fails++;
    }
    m_list_free(&l);

    /* ---- scenario 2: two inserts in front of A, no re-insert on revisit ---- */
    l = m_list_new(NULL, NULL);
    m_list_insert(l, B); m_list_insert(l, A);                          /* list: A B */
    int done = 0; seen_A = seen_B = 0; int seen_new = 0;
    printf("scenario 2 walk:");
    for (m_list_itr_t *itr = m_list_itr_new(l); itr; m_list_itr_next(&itr)) {
        char *cur = m_list_itr_get_data(itr);
        printf(" %s", cur);
        seen_A += cur == A; seen_B += cur == B; seen_new += (cur != A && cur != B);
        if (cur == A && !done) {
            done = 1;
            m_list_itr_insert(itr, X[0]);
            m_list_itr_insert(itr, X[1]);          /* list: X1 X0 A B */
        }
    }
    printf("\n  visits: A=%d B=%d, freshly inserted nodes visited=%d of 2\n", seen_A, seen_B, seen_new);
    if (seen_A != 1) {
        printf("FAIL: A visited %d times by one walk\n", seen_A);
        fails++;
    }
    if (seen_new != 0 && seen_new != 2) {
        printf("FAIL: %d of the 2 nodes inserted at the same spot were visited, the other was not\n", seen_new);
        fails++;
    }
    m_list_free(&l);

    return fails ? 1 : 0;
}

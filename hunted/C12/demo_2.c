/*
 * C12 finding 2: a FAILED m_list_itr_insert() (-ENOMEM, nothing inserted) still bumps the
 * iterator's internal "diff" counter. A following m_list_itr_remove() of the current element
 * then nets diff to 0, so m_list_itr_next() advances one step too far and an element that is
 * still in the list is never visited.
 *
 * Only public API: m_set_memhook() (module/cmn.h via module/ctx.h) + list API.
 */
#include <stdio.h>
#include <stdlib.h>
#include <sys/types.h>
#include <module/ctx.h>   /* pulls in module/cmn.h: m_set_memhook() */
#include <module/structs/list.h>

static int fail_allocs;
static void *my_malloc(size_t s)            { return fail_allocs ? NULL : malloc(s); }
static void *my_calloc(size_t n, size_t s)  { return fail_allocs ? NULL : calloc(n, s); }
static void  my_free(void *p)               { free(p); }

static int walk(int inject_failed_insert) {
    static char A[] = "A", B[] = "B", C[] = "C", X[] = "X";
    int visited_B = 0;

    m_list_t *l = m_list_new(NULL, NULL);
    /* no comparator: m_list_insert() puts new elements in front -> list is A, B, C */
    m_list_insert(l, C);
    m_list_insert(l, B);
    m_list_insert(l, A);

    printf("%s: visit order:", inject_failed_insert ? "with failed insert   " : "without failed insert");
    for (m_list_itr_t *itr = m_list_itr_new(l); itr; m_list_itr_next(&itr)) {
        char *cur = m_list_itr_get_data(itr);
        printf(" %s", cur);
        if (cur == B) {
            visited_B = 1;
        }
        if (cur == A) {
            if (inject_failed_insert) {
                fail_allocs = 1;
                int ret = m_list_itr_insert(itr, X); /* allocator says no: nothing is inserted */
                fail_allocs = 0;
                printf(" [insert X -> %d, len still %zd]", ret, m_list_len(l));
            }
            int ret = m_list_itr_remove(itr);        /* drop A; B is now the current, not-yet-visited element */
            printf(" [remove A -> %d]", ret);
        }
    }
    printf("\n");
    printf("    list len at the end: %zd, B still in list: %s, B visited: %s\n",
           m_list_len(l), m_list_find(l, B) ? "yes" : "no", visited_B ? "yes" : "no");
    int bad = m_list_find(l, B) && !visited_B;
    m_list_free(&l);
    return bad;
}

int main(void) {
    setvbuf(stdout, NULL, _IONBF, 0);
    m_set_memhook(my_malloc, my_calloc, my_free);

    int bad0 = walk(0);
    int bad1 = walk(1);
    if (bad0 || bad1) {
        printf("FAIL: iterator skipped element B although it is still in the list\n");
        return 1;
    }
    printf("OK\n");
    return 0;
}

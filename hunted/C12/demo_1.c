/*
 * C12 finding 1: m_list_clear()/m_list_free() silently drop nothing (and m_list_free()
 * then leaks every node without running the element destructor) when the allocator
 * refuses the tiny iterator m_list_clear() allocates internally.
 *
 * Only public API: m_set_memhook() (module/cmn.h) + list API.
 */
#include <stdio.h>
#include <stdlib.h>
#include <sys/types.h>
#include <module/ctx.h>   /* pulls in module/cmn.h: m_set_memhook() */
#include <module/structs/list.h>

static int fail_allocs;              /* when set, the user allocator reports out-of-memory */
static long live_blocks;             /* blocks handed out by the allocator and not yet freed */

static void *my_malloc(size_t s)            { if (fail_allocs) return NULL; live_blocks++; return malloc(s); }
static void *my_calloc(size_t n, size_t s)  { if (fail_allocs) return NULL; live_blocks++; return calloc(n, s); }
static void  my_free(void *p)               { if (p) live_blocks--; free(p); }

static int dtor_calls;
static void dtor(void *p) { (void)p; dtor_calls++; }

int main(void) {
    int fails = 0;
    static int v[3] = { 1, 2, 3 };

    setvbuf(stdout, NULL, _IONBF, 0);
    m_set_memhook(my_malloc, my_calloc, my_free);

    m_list_t *l = m_list_new(NULL, dtor);
    for (int i = 0; i < 3; i++) {
        m_list_insert(l, &v[i]);
    }
    printf("len before clear: %zd, live allocator blocks: %ld\n", m_list_len(l), live_blocks);

    /* transient memory pressure while clearing */
    fail_allocs = 1;
    int ret = m_list_clear(l);
    fail_allocs = 0;
    printf("m_list_clear() under OOM returned %d, len now %zd, dtor calls %d\n", ret, m_list_len(l), dtor_calls);
    if (ret == 0 && m_list_len(l) != 0) {
        printf("FAIL: m_list_clear() reported success but the list still holds %zd elements\n", m_list_len(l));
        fails++;
    }

    fail_allocs = 1;
    ret = m_list_free(&l);
    fail_allocs = 0;
    printf("m_list_free() under OOM returned %d, l=%p, dtor calls %d, live allocator blocks %ld\n",
           ret, (void *)l, dtor_calls, live_blocks);
    if (ret == 0 && l == NULL && dtor_calls != 3) {
        printf("FAIL: list freed with success, but destructor ran %d times for 3 elements\n", dtor_calls);
        fails++;
    }
    if (ret == 0 && l == NULL && live_blocks != 0) {
        printf("FAIL: list freed with success, but %ld nodes are leaked (unreachable)\n", live_blocks);
        fails++;
    }
    return fails ? 1 : 0;
}

/*
 * C12 finding 4 (compile-time): the generic m_iterate() of <module/structs/itr.h> cannot be used
 * on a list, stack, queue or bst: its _Generic table is keyed on the ITERATOR types
 * (m_list_itr_t *, ...) instead of the container types, so passing the container does not
 * compile, and passing an iterator would hand an iterator object to m_list_iterate().
 *
 * Build WITHOUT -DWORKAROUND: does not compile.  With -DWORKAROUND (direct m_*_iterate calls)
 * it prints the expected orders, showing the program is otherwise fine.
 */
#include <stdio.h>
#include <sys/types.h>
#include <module/structs/itr.h>

static int cb(void *up, void *d) { (void)up; printf(" %s", (char *)d); return 0; }

int main(void) {
    static char a[] = "a", b[] = "b", c[] = "c";
    m_list_t *l = m_list_new(NULL, NULL);
    m_stack_t *s = m_stack_new(NULL);
    m_queue_t *q = m_queue_new(NULL);
    char *v[] = { a, b, c };
    for (int i = 0; i < 3; i++) { m_list_insert(l, v[i]); m_stack_push(s, v[i]); m_queue_enqueue(q, v[i]); }
#ifdef WORKAROUND
    printf("list :"); m_list_iterate(l, cb, NULL);  printf("\n");
    printf("stack:"); m_stack_iterate(s, cb, NULL); printf("\n");
    printf("queue:"); m_queue_iterate(q, cb, NULL); printf("\n");
#else
    printf("list :"); m_iterate(l, cb, NULL); printf("\n");
    printf("stack:"); m_iterate(s, cb, NULL); printf("\n");
    printf("queue:"); m_iterate(q, cb, NULL); printf("\n");
#endif
    m_list_free(&l); m_stack_free(&s); m_queue_free(&q);
    return 0;
}

/*
 * C17 demo: become/unbecome issued from INSIDE a handler of a RUNNING module are
 * refused (-EPERM) when the module was registered with M_MOD_DENY_CTX, so the
 * handler stack cannot be changed from a handler and the next delivery goes to
 * the wrong handler.  The very same calls work from outside a handler, and work
 * from inside a handler for a module without the flag.
 */
#include <module/ctx.h>
#include <module/mod.h>
#include <stdio.h>
#include <string.h>
#include <errno.h>

typedef struct {
    int r_become;      /* result of m_mod_become() issued inside H0 */
    int r_unbecome;    /* result of m_mod_unbecome() issued inside H1 */
    char trace[32];    /* which handler got each user message */
} rec_t;

static void H1(m_mod_t *m, const m_queue_t *const evts);

static void note(m_mod_t *m, char c) {
    rec_t *r = (rec_t *)m_mod_userdata(m);
    size_t l = strlen(r->trace);
    r->trace[l] = c;
}

/* registration-time handler: on a user message, become(H1) */
static void H0(m_mod_t *m, const m_queue_t *const evts) {
    rec_t *r = (rec_t *)m_mod_userdata(m);
    m_itr_foreach(evts, {
        m_evt_t *e = m_itr_get(m_itr);
        if (e->type == M_SRC_TYPE_PS && !e->ps_evt->system) {
            note(m, '0');
            if (r->r_become == 99) {
                r->r_become = m_mod_become(m, H1);
            }
        }
    });
}

/* on a user message, unbecome() */
static void H1(m_mod_t *m, const m_queue_t *const evts) {
    rec_t *r = (rec_t *)m_mod_userdata(m);
    m_itr_foreach(evts, {
        m_evt_t *e = m_itr_get(m_itr);
        if (e->type == M_SRC_TYPE_PS && !e->ps_evt->system) {
            note(m, '1');
            if (r->r_unbecome == 99) {
                r->r_unbecome = m_mod_unbecome(m);
            }
        }
    });
}

static void pump(void) {
    for (int i = 0; i < 4; i++) {
        m_ctx_dispatch();
    }
}

int main(void) {
    static rec_t plain = { 99, 99, "" }, deny = { 99, 99, "" };
    m_mod_t *P = NULL, *D = NULL;
    m_mod_hook_t hook = { .on_evt = H0 };
    int fail = 0;

    m_ctx_register("c17", M_CTX_PERSIST, NULL);
    m_mod_register("plain", &P, &hook, 0, &plain);
    m_mod_register("deny", &D, &hook, M_MOD_DENY_CTX, &deny);
    m_ctx_dispatch(); /* loop start: both modules are started */
    printf("plain RUNNING=%d deny RUNNING=%d\n", m_mod_is(P, M_MOD_RUNNING), m_mod_is(D, M_MOD_RUNNING));

    /* 3 messages each, one per dispatch: expected trace "010" (H0 becomes H1, H1 unbecomes, H0 again) */
    for (int i = 0; i < 3; i++) {
        m_mod_ps_tell(P, P, "msg", 0);
        m_mod_ps_tell(P, D, "msg", 0);
        pump();
    }
    printf("plain: become-in-handler=%d unbecome-in-handler=%d trace=%s\n", plain.r_become, plain.r_unbecome, plain.trace);
    printf("deny : become-in-handler=%d unbecome-in-handler=%d trace=%s\n", deny.r_become, deny.r_unbecome, deny.trace);
    if (strcmp(plain.trace, "010") || plain.r_become || plain.r_unbecome) {
        printf("FAIL: plain module did not behave as a handler stack\n");
        fail = 1;
    }
    if (deny.r_become != 0) {
        printf("FAIL: m_mod_become() inside a handler of a RUNNING module was refused: %d (%s)\n", deny.r_become, strerror(-deny.r_become));
        fail = 1;
    }
    if (strcmp(deny.trace, "010")) {
        printf("FAIL: deliveries of the M_MOD_DENY_CTX module went to handlers '%s', expected '010'\n", deny.trace);
        fail = 1;
    }

    /* Same module, same state, but called from outside a handler: accepted. Then unbecome from inside H1 is refused. */
    int r = m_mod_become(D, H1);
    printf("deny : become from outside a handler=%d\n", r);
    m_mod_ps_tell(P, D, "msg", 0);
    pump();
    m_mod_ps_tell(P, D, "msg", 0);
    pump();
    printf("deny : unbecome-in-handler=%d trace=%s (expected ...10)\n", deny.r_unbecome, deny.trace);
    if (deny.r_unbecome != 0 || strcmp(deny.trace + 3, "10")) {
        printf("FAIL: m_mod_unbecome() inside the handler was refused (%d), module is stuck in H1\n", deny.r_unbecome);
        fail = 1;
    }

    m_ctx_quit(0);
    m_ctx_dispatch();
    m_mod_deregister(&P);
    m_mod_deregister(&D);
    m_ctx_deregister();
    printf(fail ? "RESULT: FAIL\n" : "RESULT: OK\n");
    return fail;
}

/*
 * C11 finding 1: m_bst_clear()/m_bst_free() need a heap allocation (the
 * iterator) to empty the set.  When that allocation fails they report
 * success, destroy nothing, leak every node, leave len != real size, and the
 * next m_bst_itr_new() dereferences NULL.
 *
 * Only public API: m_set_memhook() (module/cmn.h) + module/structs/bst.h
 */
#include <stdio.h>
#include <stdlib.h>
#include <sys/types.h>
#include <errno.h>
#include <module/ctx.h>   /* pulls in module/cmn.h: m_set_memhook() */
#include <module/structs/bst.h>

static int fail_next;      /* make the next N calloc() calls fail */
static long live_blocks;   /* blocks handed out by the hook and not yet freed */

static void *my_malloc(size_t s) { void *p = malloc(s); if (p) live_blocks++; return p; }
static void *my_calloc(size_t n, size_t s) {
    if (fail_next > 0) { fail_next--; return NULL; }   /* a legal answer for calloc() */
    void *p = calloc(n, s); if (p) live_blocks++; return p;
}
static void my_free(void *p) { if (p) live_blocks--; free(p); }

static int destroyed[3];
static int keys[3] = { 20, 10, 30 };
static void dtor(void *p) { destroyed[(int *)p - keys]++; }
static int icmp(void *a, void *b) { return (*(int *)a > *(int *)b) - (*(int *)a < *(int *)b); }
static int count_cb(void *u, void *d) { (void)d; ++*(int *)u; return 0; }

static int fails;
#define EXPECT(c, ...) do { if (!(c)) { fails++; printf("FAIL: " __VA_ARGS__); printf("\n"); } } while (0)

int main(int argc, char **argv) {
    (void)argv;
    m_set_memhook(my_malloc, my_calloc, my_free);

    /* ---- A: m_bst_clear under a single allocation failure ---- */
    m_bst_t *t = m_bst_new(icmp, dtor);
    for (int i = 0; i < 3; i++) m_bst_insert(t, &keys[i]);
    long blocks_before = live_blocks;         /* tree + 3 nodes */

    fail_next = 1;
    int ret = m_bst_clear(t);
    fail_next = 0;

    int visited = 0;
    m_bst_traverse(t, M_BST_IN, count_cb, &visited);
    printf("A: m_bst_clear -> %d, len=%zd, elements reachable=%d, find(10)=%p, dtor runs=%d/%d/%d, live blocks %ld -> %ld\n",
           ret, m_bst_len(t), visited, m_bst_find(t, &keys[1]), destroyed[0], destroyed[1], destroyed[2], blocks_before, live_blocks);
    /* either it fails cleanly and the set is untouched, or it succeeds and the set is empty & destroyed */
    if (ret == 0) {
        EXPECT(m_bst_len(t) == 0, "clear returned 0 but m_bst_len() == %zd", m_bst_len(t));
        EXPECT(destroyed[0] == 1 && destroyed[1] == 1 && destroyed[2] == 1, "clear returned 0 but destructor ran %d/%d/%d times", destroyed[0], destroyed[1], destroyed[2]);
        EXPECT(live_blocks == blocks_before - 3, "clear returned 0 but %ld node blocks are leaked (unreachable, never freed)", live_blocks - (blocks_before - 3));
    } else {
        EXPECT(m_bst_len(t) == 3 && visited == 3, "clear failed but set was modified");
    }
    EXPECT(m_bst_len(t) == visited, "m_bst_len()=%zd but traversal sees %d elements", m_bst_len(t), visited);

    /* ---- B: m_bst_free under a single allocation failure ---- */
    m_bst_t *t2 = m_bst_new(icmp, dtor);
    destroyed[0] = destroyed[1] = destroyed[2] = 0;
    for (int i = 0; i < 3; i++) m_bst_insert(t2, &keys[i]);
    blocks_before = live_blocks;
    fail_next = 1;
    ret = m_bst_free(&t2);
    fail_next = 0;
    printf("B: m_bst_free -> %d, t2=%p, dtor runs=%d/%d/%d, live blocks %ld -> %ld\n",
           ret, (void *)t2, destroyed[0], destroyed[1], destroyed[2], blocks_before, live_blocks);
    EXPECT(!(ret == 0 && t2 == NULL) || (destroyed[0] == 1 && destroyed[1] == 1 && destroyed[2] == 1),
           "free returned 0 and NULLed the handle but destructor ran %d/%d/%d times", destroyed[0], destroyed[1], destroyed[2]);
    EXPECT(!(ret == 0 && t2 == NULL) || live_blocks == blocks_before - 4,
           "free returned 0 but %ld node blocks leaked", live_blocks - (blocks_before - 4));

    printf("%s (%d failed expectations)\n", fails ? "FAIL" : "PASS", fails);
    fflush(stdout);

    /* ---- C: the set from A is now poisoned: len>0 with root==NULL ---- */
    if (argc > 1) return fails != 0;          /* any argument: skip the crashing step */
    printf("C: calling m_bst_itr_new() on the set from A (len=%zd) ...\n", m_bst_len(t));
    fflush(stdout);
    m_bst_itr_t *it = m_bst_itr_new(t);       /* SIGSEGV: find_min_subtree(&root) with root == NULL */
    printf("C: survived, itr=%p\n", (void *)it);
    return fails != 0;
}

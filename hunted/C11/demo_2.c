/*
 * C11 finding 2: while the element destructor runs, the element has already
 * been unlinked from the set (find fails, traversals do not see it) but
 * m_bst_len() still counts it.  "Last one out" logic in a destructor
 * (if (m_bst_len(set) == 0) ...) therefore never fires.
 */
#include <stdio.h>
#include <stdlib.h>
#include <sys/types.h>
#include <module/structs/bst.h>

static m_bst_t *set;
static int keys[3] = { 20, 10, 30 };
static int fails, last_one_seen;
static const char *op;

static int icmp(void *a, void *b) { return (*(int *)a > *(int *)b) - (*(int *)a < *(int *)b); }
static int count_cb(void *u, void *d) { (void)d; ++*(int *)u; return 0; }

static int walk_in_dtor;

static void dtor(void *p) {
    if (walk_in_dtor) {
        /* e.g. tell the surviving elements that p is gone */
        printf("  [%s] dtor(%d): iterating the survivors, m_bst_len()=%zd ...\n", op, *(int *)p, m_bst_len(set));
        fflush(stdout);
        for (m_bst_itr_t *it = m_bst_itr_new(set); it; m_bst_itr_next(&it)) {   /* SIGSEGV when p was the last element */
            printf("      survivor %d\n", *(int *)m_bst_itr_get_data(it));
        }
        return;
    }
    int reachable = 0;
    m_bst_traverse(set, M_BST_IN, count_cb, &reachable);
    ssize_t len = m_bst_len(set);
    void *self = m_bst_find(set, p);
    printf("  [%s] dtor(%d): m_bst_len()=%zd, in-order traversal sees %d, find(self)=%s\n",
           op, *(int *)p, len, reachable, self ? "found" : "NULL");
    if (len != reachable) {
        fails++;
        printf("  FAIL: m_bst_len() reports %zd but the set holds %d elements\n", len, reachable);
    }
    if (len == 0) last_one_seen++;
}

int main(int argc, char **argv) {
    (void)argv;
    set = m_bst_new(icmp, dtor);

    op = "m_bst_remove";
    for (int i = 0; i < 3; i++) m_bst_insert(set, &keys[i]);
    m_bst_remove(set, &keys[0]);           /* two children */
    m_bst_remove(set, &keys[1]);
    m_bst_remove(set, &keys[2]);           /* last one: set is empty now */

    op = "m_bst_itr_remove";
    for (int i = 0; i < 3; i++) m_bst_insert(set, &keys[i]);
    for (m_bst_itr_t *it = m_bst_itr_new(set); it; m_bst_itr_next(&it)) m_bst_itr_remove(it);

    op = "m_bst_clear";
    for (int i = 0; i < 3; i++) m_bst_insert(set, &keys[i]);
    m_bst_clear(set);

    printf("destructor observed an empty set %d times (expected 3: once per emptied set)\n", last_one_seen);
    if (last_one_seen != 3) fails++;
    printf("%s (%d)\n", fails ? "FAIL" : "PASS", fails);
    fflush(stdout);
    if (argc > 1) { m_bst_free(&set); return fails != 0; }   /* any argument: skip the crashing step */

    /* Consequence: a destructor that walks the set with the iterator crashes on the last element,
     * because m_bst_itr_new() trusts len > 0 and dereferences the (NULL) root. */
    op = "m_bst_remove, dtor walks set";
    walk_in_dtor = 1;
    m_bst_insert(set, &keys[0]);
    m_bst_insert(set, &keys[1]);
    m_bst_remove(set, &keys[1]);
    m_bst_remove(set, &keys[0]);
    printf("survived\n");
    m_bst_free(&set);
    return fails != 0;
}

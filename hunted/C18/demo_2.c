/*
 * C18 finding 2: tokens are NOT replenished at rate r.
 *
 * The refill timer is a periodic timerfd of period 1e9/r ns; every time it is read, the number of
 * periods that elapsed since the previous read is thrown away and exactly ONE token is added.
 * So the real refill rate is min(r, number of times per second the context gets to read that fd):
 *
 *   scenario A: rate 100/s, burst 50. The module's on_evt() does 600ms of (simulated) work once.
 *               60 periods elapse meanwhile -> 1 token.
 *   scenario B: same bucket, application drives the context with m_ctx_dispatch() every 100ms
 *               for 1s -> 1 token per dispatch, ie 10/s instead of 100/s.
 *   scenario C: nothing blocks at all, plain m_ctx_loop(); rate 1,000,000/s (valid: <= 1e9),
 *               burst 1,000,000. After 500ms the bucket should hold ~500,000 tokens.
 *
 * Tokens are counted through the public API only: a harmless rate limited call
 * (m_mod_set_batch_size(mod, 0), which is what the module already has) is repeated until -EAGAIN.
 *
 * Exit code 0 = property holds, 1 = FAIL.
 */
#include <module/ctx.h>
#include <module/mod.h>
#include <module/structs/queue.h>
#include <stdio.h>
#include <errno.h>
#include <unistd.h>
#include <time.h>

static uint64_t now_ms(void) {
    struct timespec ts;
    clock_gettime(CLOCK_MONOTONIC, &ts);
    return ts.tv_sec * 1000ull + ts.tv_nsec / 1000000;
}

/* Use up every token; returns how many there were */
static uint64_t drain(m_mod_t *mod) {
    uint64_t n = 0;
    while (m_mod_set_batch_size(mod, 0) == 0) {
        n++;
    }
    return n;
}

static int failures;

static void verdict(const char *what, uint64_t got, uint64_t rate, uint64_t burst, uint64_t ms) {
    uint64_t expected = rate * ms / 1000;
    if (expected > burst) {
        expected = burst;
    }
    printf("%s: bucket was empty, module kept running for %lums at rate %lu/s (burst %lu): expected ~%lu tokens, found %lu\n",
           what, (unsigned long)ms, (unsigned long)rate, (unsigned long)burst, (unsigned long)expected, (unsigned long)got);
    /* generous: anything above half of what the rate promises is accepted */
    if (got < expected / 2) {
        printf("    FAIL: replenished at %.1f tokens/s instead of %lu/s\n", got * 1000.0 / ms, (unsigned long)rate);
        failures++;
    }
}

/* ------------------------------------------------------------------------------------------ */
/* Scenario A                                                                                 */
/* ------------------------------------------------------------------------------------------ */
static const m_src_tmr_t work_tmr  = { CLOCK_MONOTONIC,  10 * 1000 * 1000ull }; // at 10ms: slow work starts
static const m_src_tmr_t check_tmr = { CLOCK_MONOTONIC, 650 * 1000 * 1000ull }; // at 650ms: count tokens
static uint64_t a_t0, a_tokens, a_elapsed;

static bool a_start(m_mod_t *mod) {
    m_mod_src_register_tmr(mod, &work_tmr, M_SRC_ONESHOT, "work");
    m_mod_src_register_tmr(mod, &check_tmr, M_SRC_ONESHOT, "check");
    int r = m_mod_set_tokenbucket(mod, 100, 50);
    uint64_t n = drain(mod);
    a_t0 = now_ms();
    printf("A: set_tokenbucket(100/s, burst 50) -> %d; drained %lu tokens, bucket is empty now\n", r, (unsigned long)n);
    return true;
}

static void a_evt(m_mod_t *mod, const m_queue_t *const evts) {
    m_itr_foreach(evts, {
        m_evt_t *e = m_itr_get(m_itr);
        if (e->type != M_SRC_TYPE_TMR) {
            continue;
        }
        if (e->tmr_evt->ns == work_tmr.ns) {
            usleep(600 * 1000); // a slow event handler
        } else {
            a_elapsed = now_ms() - a_t0;
            a_tokens = drain(mod);
            m_ctx_quit(0);
        }
    });
}

static void scenario_a(void) {
    m_mod_t *mod = NULL;
    m_mod_hook_t h = { .on_start = a_start, .on_evt = a_evt };
    m_ctx_register("A", 0, NULL);
    m_mod_register("slow", &mod, &h, 0, NULL);
    m_ctx_loop();
    verdict("A", a_tokens, 100, 50, a_elapsed);
    m_mod_deregister(&mod); // last module: ctx goes away too
}

/* ------------------------------------------------------------------------------------------ */
/* Scenario B                                                                                 */
/* ------------------------------------------------------------------------------------------ */
static void b_evt(m_mod_t *mod, const m_queue_t *const evts) { }

static void scenario_b(void) {
    m_mod_t *mod = NULL;
    m_mod_hook_t h = { .on_evt = b_evt };
    m_ctx_register("B", 0, NULL);
    m_mod_register("dispatched", &mod, &h, 0, NULL);
    m_ctx_dispatch(); // starts the loop (and the module)
    int r = m_mod_set_tokenbucket(mod, 100, 50);
    uint64_t n = drain(mod);
    uint64_t t0 = now_ms();
    printf("B: set_tokenbucket(100/s, burst 50) -> %d; drained %lu tokens, bucket is empty now\n", r, (unsigned long)n);
    for (int i = 0; i < 10; i++) {
        usleep(100 * 1000);
        m_ctx_dispatch();
    }
    uint64_t elapsed = now_ms() - t0;
    verdict("B", drain(mod), 100, 50, elapsed);
    m_mod_set_tokenbucket(mod, 0, 0);
    m_ctx_quit(0);
    m_ctx_dispatch(); // stops the loop
    m_mod_deregister(&mod);
}

/* ------------------------------------------------------------------------------------------ */
/* Scenario C                                                                                 */
/* ------------------------------------------------------------------------------------------ */
static const m_src_tmr_t c_check_tmr = { CLOCK_MONOTONIC, 500 * 1000 * 1000ull };
static uint64_t c_t0, c_tokens, c_elapsed;
#define C_RATE 1000000u

static bool c_start(m_mod_t *mod) {
    m_mod_src_register_tmr(mod, &c_check_tmr, M_SRC_ONESHOT, NULL);
    int r = m_mod_set_tokenbucket(mod, C_RATE, C_RATE);
    uint64_t n = drain(mod);
    c_t0 = now_ms();
    printf("C: set_tokenbucket(%u/s, burst %u) -> %d; drained %lu tokens, bucket is empty now\n", C_RATE, C_RATE, r, (unsigned long)n);
    return true;
}

static void c_evt(m_mod_t *mod, const m_queue_t *const evts) {
    m_itr_foreach(evts, {
        m_evt_t *e = m_itr_get(m_itr);
        if (e->type == M_SRC_TYPE_TMR) {
            c_elapsed = now_ms() - c_t0;
            c_tokens = drain(mod);
            m_ctx_quit(0);
        }
    });
}

static void scenario_c(void) {
    m_mod_t *mod = NULL;
    m_mod_hook_t h = { .on_start = c_start, .on_evt = c_evt };
    m_ctx_register("C", 0, NULL);
    m_mod_register("fast", &mod, &h, 0, NULL);
    m_ctx_loop();
    verdict("C", c_tokens, C_RATE, C_RATE, c_elapsed);
    m_mod_deregister(&mod);
}

int main(void) {
    scenario_a();
    scenario_b();
    scenario_c();
    printf("\n%s\n", failures ? "RESULT: FAIL" : "RESULT: PASS");
    return failures ? 1 : 0;
}

/*
 * C18 finding 4: a module that spends its last token on m_mod_pause() can never act again.
 *
 * m_mod_pause() takes the refill timer out of the poll set (its timerfd gets closed) together with
 * every other source of the module, and m_mod_resume() / m_mod_stop() both need a token:
 * the bucket stays empty for as long as the module is paused, and the module stays paused for as
 * long as the bucket is empty. "A throttled module becomes able to act again" does not hold; only
 * re-configuring the bucket (which needs no token) or deregistering the module gets out of it.
 *
 * Sequence: bucket (100/s, burst 1); wait for the token; m_mod_pause() -> 0; keep the context
 * running for one second (a second module keeps it alive); m_mod_resume() / m_mod_stop().
 * With 100 tokens/s, one second is 100 tokens worth of time.
 *
 * Exit code 0 = property holds, 1 = FAIL.
 */
#include <module/ctx.h>
#include <module/mod.h>
#include <module/structs/queue.h>
#include <stdio.h>
#include <errno.h>
#include <string.h>
#include <unistd.h>
#include <time.h>

static uint64_t now_ms(void) {
    struct timespec ts;
    clock_gettime(CLOCK_MONOTONIC, &ts);
    return ts.tv_sec * 1000ull + ts.tv_nsec / 1000000;
}

static void noop_evt(m_mod_t *mod, const m_queue_t *const evts) { }

static void run_for(int ms) {
    uint64_t end = now_ms() + ms;
    while (now_ms() < end) {
        m_ctx_dispatch();
        usleep(1000);
    }
}

int main(void) {
    int failures = 0;
    m_mod_t *mod = NULL, *other = NULL;
    m_mod_hook_t h = { .on_evt = noop_evt };

    m_ctx_register("c18", 0, NULL);
    m_mod_register("mod", &mod, &h, 0, NULL);
    m_mod_register("other", &other, &h, 0, NULL); // keeps the context looping while "mod" is paused
    m_ctx_dispatch(); // start looping: modules get started

    int r = m_mod_set_tokenbucket(mod, 100, 1);
    printf("set_tokenbucket(100/s, burst 1) -> %d\n", r);
    r = m_mod_pause(mod);
    printf("m_mod_pause() right away        -> %d (%s): the token went into the bucket's own timer registration\n", r, strerror(-r));
    run_for(100);
    r = m_mod_pause(mod);
    printf("m_mod_pause() 100ms later       -> %d: refilled meanwhile, module is %s\n", r, m_mod_is(mod, M_MOD_PAUSED) ? "PAUSED" : "not paused");

    for (int i = 1; i <= 4; i++) {
        run_for(250);
        r = m_mod_resume(mod);
        printf("paused for %4dms: m_mod_resume() -> %d (%s)\n", i * 250, r, r ? strerror(-r) : "ok");
        if (r == 0) {
            break;
        }
    }
    if (r != 0) {
        int r2 = m_mod_stop(mod);
        printf("m_mod_stop()                    -> %d (%s)\n", r2, r2 ? strerror(-r2) : "ok");
        printf("    FAIL: 1s (= 100 tokens at 100/s) after it was throttled the module still cannot act, and it never will\n");
        failures++;
    }

    m_mod_set_tokenbucket(mod, 0, 0);
    m_ctx_quit(0);
    m_ctx_dispatch();
    m_mod_deregister(&mod);
    m_mod_deregister(&other);

    printf("\n%s\n", failures ? "RESULT: FAIL" : "RESULT: PASS");
    return failures ? 1 : 0;
}

/*
 * C18 finding 1: a throttled m_mod_set_batch_timeout() is not "refused without effect".
 *
 *   (a) m_mod_set_batch_timeout(mod, 0)   with an EMPTY bucket returns 0: the change goes through
 *       although no token was available (and none gets consumed).
 *   (b) m_mod_set_batch_timeout(mod, ns)  with an EMPTY bucket returns -EAGAIN, but it has already
 *       dropped the previous batch timer and left batch size at SIZE_MAX: the module's events are
 *       never handed to on_evt() again.
 *
 * Exit code 0 = property holds, 1 = FAIL.
 */
#include <module/ctx.h>
#include <module/mod.h>
#include <module/structs/queue.h>
#include <stdio.h>
#include <errno.h>
#include <string.h>
#include <time.h>

static uint64_t now_ms(void) {
    struct timespec ts;
    clock_gettime(CLOCK_MONOTONIC, &ts);
    return ts.tv_sec * 1000ull + ts.tv_nsec / 1000000;
}

static uint64_t t0;
static int failures;

/* ---------------- module "worker": 10ms user timer, delivered in 50ms batches ---------------- */
static const m_src_tmr_t user_tmr = { CLOCK_MONOTONIC, 10 * 1000 * 1000ull };  // 10ms, NORM priority
static int seen_before;     // user timer events received before the refused call
static int seen_after;      // ... and after it, while the loop was running
static int seen_at_loop_stop; // ... handed over only by the flush that m_ctx_loop() does when it ends
static bool quitting;
static int refused_ret = 1; // return value of the refused call
static bool refused_done;
static uint64_t refused_at; // ms since t0

static bool worker_start(m_mod_t *mod) {
    int r;
    r = m_mod_src_register_tmr(mod, &user_tmr, 0, NULL);
    printf("[worker] register 10ms user timer            -> %d\n", r);
    r = m_mod_set_batch_timeout(mod, 50 * 1000 * 1000ull);
    printf("[worker] set_batch_timeout(50ms)             -> %d\n", r);
    /* rate 1/s, burst 1: the one token is used by the bucket's own bookkeeping, next refill in 1s */
    r = m_mod_set_tokenbucket(mod, 1, 1);
    printf("[worker] set_tokenbucket(rate 1/s, burst 1)  -> %d\n", r);
    /* Prove that the bucket is empty: any rate limited call is refused */
    r = m_mod_set_batch_size(mod, 0);
    printf("[worker] probe set_batch_size(0)             -> %d (%s)\n", r, r == -EAGAIN ? "EAGAIN: bucket is empty" : "??");
    if (r != -EAGAIN) {
        failures++;
    }
    return true;
}

static void worker_evt(m_mod_t *mod, const m_queue_t *const evts) {
    int n = 0;
    m_itr_foreach(evts, {
        m_evt_t *e = m_itr_get(m_itr);
        if (e->type == M_SRC_TYPE_TMR) {
            n++;
        }
    });
    if (!refused_done) {
        seen_before += n;
        if (seen_before >= 20) {
            /* bucket is still empty (refill comes 1s after it was set, we are ~250ms in) */
            int probe = m_mod_set_batch_size(mod, 0);
            refused_ret = m_mod_set_batch_timeout(mod, 20 * 1000 * 1000ull);
            refused_done = true;
            refused_at = now_ms() - t0;
            printf("[worker] t=%4lums probe set_batch_size(0)      -> %d\n", (unsigned long)(now_ms() - t0), probe);
            printf("[worker] t=%4lums set_batch_timeout(20ms)      -> %d (%s), %d timer events seen so far\n",
                   (unsigned long)(now_ms() - t0), refused_ret, strerror(-refused_ret), seen_before);
        }
    } else if (!quitting) {
        seen_after += n;
    } else {
        seen_at_loop_stop += n;
    }
}

/* ---------------- module "zero": (a) timeout 0 with an empty bucket ---------------- */
static int zero_ret = 1, zero_probe_before = 1, zero_probe_after = 1;
static bool zero_start(m_mod_t *mod) {
    m_mod_set_batch_timeout(mod, 50 * 1000 * 1000ull);
    m_mod_set_tokenbucket(mod, 1, 1);
    zero_probe_before = m_mod_set_batch_size(mod, 0);        // -EAGAIN: empty
    zero_ret = m_mod_set_batch_timeout(mod, 0);              // must be refused as well
    zero_probe_after = m_mod_set_batch_size(mod, 0);         // still -EAGAIN: no token was there, none was taken
    return true;
}
static void zero_evt(m_mod_t *mod, const m_queue_t *const evts) { }

/* ---------------- module "clock": ends the run after 800ms ---------------- */
static const m_src_tmr_t end_tmr = { CLOCK_MONOTONIC, 800 * 1000 * 1000ull };
static bool clock_start(m_mod_t *mod) {
    m_mod_src_register_tmr(mod, &end_tmr, M_SRC_ONESHOT | M_SRC_PRIO_HIGH, NULL);
    return true;
}
static void clock_evt(m_mod_t *mod, const m_queue_t *const evts) {
    m_itr_foreach(evts, {
        m_evt_t *e = m_itr_get(m_itr);
        if (e->type == M_SRC_TYPE_TMR) {
            quitting = true;
            m_ctx_quit(0);
        }
    });
}

int main(void) {
    m_mod_t *worker = NULL, *zero = NULL, *clk = NULL;
    m_mod_hook_t wh = { .on_start = worker_start, .on_evt = worker_evt };
    m_mod_hook_t zh = { .on_start = zero_start, .on_evt = zero_evt };
    m_mod_hook_t ch = { .on_start = clock_start, .on_evt = clock_evt };

    m_ctx_register("c18", 0, NULL);
    m_mod_register("worker", &worker, &wh, 0, NULL);
    m_mod_register("zero", &zero, &zh, 0, NULL);
    m_mod_register("clock", &clk, &ch, 0, NULL);

    t0 = now_ms();
    m_ctx_loop();
    uint64_t elapsed = now_ms() - t0;

    printf("\nloop ran %lums\n", (unsigned long)elapsed);

    printf("\n(a) empty bucket, set_batch_timeout(0): probe before=%d, call=%d, probe after=%d\n",
           zero_probe_before, zero_ret, zero_probe_after);
    if (zero_probe_before == -EAGAIN && zero_ret == 0) {
        printf("    FAIL: a rate limited call succeeded (returned 0) while the bucket was empty\n");
        failures++;
    }

    printf("\n(b) empty bucket, set_batch_timeout(20ms) returned %d; timer events delivered before it: %d, after it: %d\n"
           "    (%d more were held back until the loop ended and came in one lump from its final flush)\n",
           refused_ret, seen_before, seen_after, seen_at_loop_stop);
    if (!refused_done) {
        printf("    FAIL: scenario did not run\n");
        failures++;
    } else if (refused_ret == -EAGAIN && seen_after == 0) {
        printf("    FAIL: the call was refused with EAGAIN, yet it had an effect: no event reached on_evt() in the\n"
               "          remaining ~%lums (about %lu expected from the 10ms timer; the 50ms batch timer is gone)\n",
               (unsigned long)(elapsed - refused_at), (unsigned long)((elapsed - refused_at) / 10));
        failures++;
    } else if (refused_ret == 0) {
        printf("    FAIL: call succeeded with an empty bucket\n");
        failures++;
    }

    m_mod_deregister(&worker);
    m_mod_deregister(&zero);
    m_mod_deregister(&clk);

    printf("\n%s\n", failures ? "RESULT: FAIL" : "RESULT: PASS");
    return failures ? 1 : 0;
}

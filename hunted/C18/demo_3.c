/*
 * C18 finding 3: a m_mod_set_tokenbucket() that FAILS still installs the bucket, and the bucket it
 * leaves behind has no refill timer: the module is throttled for good ("a throttled module becomes
 * able to act again" / "tokens are replenished at rate r while the module is running" do not hold).
 *
 * While the process is (temporarily) out of file descriptors, a running module asks for a bucket of
 * (100/s, burst 5): the call fails, because the refill timerfd cannot be created. Descriptors are
 * released right after.
 * Expected: the call failed, so there is no limit; or, if there is one, it is the one that was asked
 *           for: 5 tokens, refilled at 100/s. In any case, 500ms later the module must be able to act.
 * Observed: rate/burst/tokens are installed, the timer is not: once the burst is used up every rate
 *           limited call fails with EAGAIN forever (m_mod_stop() and m_mod_pause() included).
 *
 * (The same half-installed state is reached, without any resource shortage, by burst == 0:
 *  m_mod_set_tokenbucket(mod, 100, 0) returns -EAGAIN - refused by the bucket it is installing - after
 *  having destroyed the previous, working, bucket, and leaves one with no timer behind; shown at the end.)
 *
 * Exit code 0 = property holds, 1 = FAIL.
 */
#include <module/ctx.h>
#include <module/mod.h>
#include <module/structs/queue.h>
#include <stdio.h>
#include <errno.h>
#include <string.h>
#include <unistd.h>
#include <fcntl.h>
#include <time.h>
#include <sys/resource.h>

static uint64_t now_ms(void) {
    struct timespec ts;
    clock_gettime(CLOCK_MONOTONIC, &ts);
    return ts.tv_sec * 1000ull + ts.tv_nsec / 1000000;
}

static uint64_t drain(m_mod_t *mod) {
    uint64_t n = 0;
    while (m_mod_set_batch_size(mod, 0) == 0) {
        n++;
    }
    return n;
}

static void noop_evt(m_mod_t *mod, const m_queue_t *const evts) { }

/* Run the context for the given time, the way an application that owns the main loop does */
static void run_for(int ms) {
    uint64_t end = now_ms() + ms;
    while (now_ms() < end) {
        m_ctx_dispatch();
        usleep(1000);
    }
}

int main(void) {
    int failures = 0;
    m_mod_t *mod = NULL;
    m_mod_hook_t h = { .on_evt = noop_evt };

    struct rlimit rl = { 128, 128 };
    setrlimit(RLIMIT_NOFILE, &rl);

    m_ctx_register("c18", 0, NULL);
    m_mod_register("mod", &mod, &h, 0, NULL);
    m_ctx_dispatch(); // start looping: module gets started

    /* A bucket that works, for reference */
    int r = m_mod_set_tokenbucket(mod, 100, 5);
    printf("set_tokenbucket(100/s, burst 5)            -> %d\n", r);
    printf("drained %lu tokens\n", (unsigned long)drain(mod));
    run_for(300);
    uint64_t n = drain(mod);
    printf("after 300ms of running: %lu tokens (burst is 5): the bucket works\n", (unsigned long)n);
    r = m_mod_set_tokenbucket(mod, 0, 0);
    printf("set_tokenbucket(0, 0)                      -> %d: no limit any more\n\n", r);

    /* Transient resource shortage: no free descriptor */
    static int hog[1024];
    int nhog = 0;
    while (nhog < 1024) {
        int fd = open("/dev/null", O_RDONLY);
        if (fd == -1) {
            break;
        }
        hog[nhog++] = fd;
    }
    r = m_mod_set_tokenbucket(mod, 100, 5);
    while (nhog > 0) {
        close(hog[--nhog]);
    }
    printf("set_tokenbucket(100/s, burst 5), no free fd -> %d (%s)\n", r, strerror(-r));
    if (r == 0) {
        printf("could not provoke the failure; nothing shown\n");
        return 2;
    }

    n = drain(mod);
    printf("rate limited calls that succeeded right after the failed call: %lu (then EAGAIN)\n", (unsigned long)n);
    run_for(500);
    n = drain(mod);
    printf("tokens after 500ms more of running (no limit -> endless, 100/s -> 5): %lu\n", (unsigned long)n);
    if (n == 0) {
        printf("    FAIL: the failed call left a bucket that is never refilled\n");
        failures++;
        run_for(1000);
        n = drain(mod);
        r = m_mod_pause(mod);
        int r2 = m_mod_stop(mod);
        printf("    one more second later: %lu tokens; m_mod_pause() -> %d, m_mod_stop() -> %d (%s)\n",
               (unsigned long)n, r, r2, r2 ? strerror(-r2) : "ok");
    }

    /* Same state through burst 0, this time on top of a bucket that works */
    r = m_mod_set_tokenbucket(mod, 100, 5);
    printf("\nset_tokenbucket(100/s, burst 5)            -> %d\n", r);
    r = m_mod_set_tokenbucket(mod, 100, 0);
    printf("set_tokenbucket(100/s, burst 0)            -> %d (%s)\n", r, r ? strerror(-r) : "ok");
    n = drain(mod);
    run_for(200);
    uint64_t n2 = drain(mod);
    printf("tokens right after: %lu, after 200ms: %lu; m_mod_stop() -> %d\n", (unsigned long)n, (unsigned long)n2, m_mod_stop(mod));
    if (r == -EAGAIN && n2 == 0) {
        printf("    FAIL: refused with EAGAIN, but not without effect: the (100/s, 5) bucket is gone, a dead one took its place\n");
        failures++;
    }

    m_mod_set_tokenbucket(mod, 0, 0);
    m_ctx_quit(0);
    m_ctx_dispatch();
    m_mod_deregister(&mod);

    printf("\n%s\n", failures ? "RESULT: FAIL" : "RESULT: PASS");
    return failures ? 1 : 0;
}

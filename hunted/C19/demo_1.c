/*
 * C19 - notification order is inverted for transitions nested in on_start()/on_stop() hooks.
 *
 * An observer keeps a mirror of worker's RUNNING state, driven only by the system-flagged
 * LIBMODULE_MOD_STARTED / LIBMODULE_MOD_STOPPED notifications naming the worker.
 * After every step the mirror is compared with m_mod_is(worker, M_MOD_RUNNING).
 */
#include <module/ctx.h>
#include <module/mod.h>
#include <stdio.h>
#include <string.h>
#include <stdlib.h>

static m_mod_t *obs, *worker;
static bool mirror_running;          // what the observer believes, from notifications only
static int n_started, n_stopped;
static char trace[256];
static bool restart_in_on_stop;

/* ---- observer ---- */
static bool obs_start(m_mod_t *self) {
    m_mod_ps_subscribe(self, M_PS_MOD_STARTED, 0, NULL);
    m_mod_ps_subscribe(self, M_PS_MOD_STOPPED, 0, NULL);
    return true;
}
static void obs_evt(m_mod_t *self, const m_queue_t *const evts) {
    m_itr_foreach(evts, {
        m_evt_t *e = m_itr_get(m_itr);
        if (e->type != M_SRC_TYPE_PS || !e->ps_evt->system || e->ps_evt->sender != worker) {
            continue;
        }
        if (!strcmp(e->ps_evt->topic, M_PS_MOD_STARTED)) {
            n_started++;
            mirror_running = true;
            strcat(trace, " STARTED");
        } else if (!strcmp(e->ps_evt->topic, M_PS_MOD_STOPPED)) {
            n_stopped++;
            mirror_running = false;
            strcat(trace, " STOPPED");
        }
    });
}

/* ---- worker ---- */
static bool worker_start(m_mod_t *self) {
    static bool first = true;
    if (first) {
        /* "start paused, someone will resume me": pause from the on_start hook */
        first = false;
        int r = m_mod_pause(self);
        printf("  [worker on_start] m_mod_pause(self) = %d\n", r);
    }
    return true;
}
static void worker_stop(m_mod_t *self) {
    if (restart_in_on_stop) {
        /* self-healing module: restart whenever stopped */
        restart_in_on_stop = false;
        int r = m_mod_start(self);
        printf("  [worker on_stop] m_mod_start(self) = %d\n", r);
    }
}
static void worker_evt(m_mod_t *self, const m_queue_t *const evts) { }

static void pump(void) {
    for (int i = 0; i < 20; i++) {
        m_ctx_dispatch();
    }
}

static int check(const char *step) {
    bool real = m_mod_is(worker, M_MOD_RUNNING);
    printf("%s\n    notifications seen so far:%s\n    observer mirror: %s, real worker state: %s (%#x) -> %s\n",
           step, trace, mirror_running ? "RUNNING" : "not running",
           real ? "RUNNING" : "not running", m_mod_state(worker),
           real == mirror_running ? "ok" : "MISMATCH");
    return real != mirror_running;
}

int main(void) {
    int fails = 0;
    m_mod_hook_t oh = { .on_start = obs_start, .on_evt = obs_evt };
    m_mod_hook_t wh = { .on_start = worker_start, .on_evt = worker_evt, .on_stop = worker_stop };

    m_ctx_register("demo", M_CTX_PERSIST, NULL);
    m_mod_register("obs", &obs, &oh, 0, NULL);
    m_mod_register("worker", &worker, &wh, 0, NULL);
    m_mod_start(obs);
    m_ctx_dispatch();                     // loop starts (dispatch mode); worker is still idle? no: it is started by the loop
    pump();
    fails += check("step 1: worker started; its on_start hook paused it (RUNNING -> PAUSED)");

    m_mod_resume(worker);
    pump();
    fails += check("step 2: m_mod_resume(worker)");

    restart_in_on_stop = true;
    m_mod_stop(worker);                   // on_stop restarts the module
    pump();
    fails += check("step 3: m_mod_stop(worker); its on_stop hook started it again (STOPPED -> RUNNING)");

    printf("started=%d stopped=%d\n", n_started, n_stopped);
    m_ctx_quit(0);
    m_ctx_dispatch();
    m_mod_deregister(&worker);
    m_mod_deregister(&obs);
    m_ctx_deregister();
    if (fails) {
        printf("FAIL: %d step(s) where the notification stream does not mirror the module's transitions\n", fails);
        return 1;
    }
    printf("PASS\n");
    return 0;
}

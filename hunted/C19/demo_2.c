/*
 * C19 - a module whose on_start() returns false enters RUNNING (state set, hook run as a
 * RUNNING module, messages accepted) and leaves it again, m_mod_start() returns 0, but the
 * subscribers only get LIBMODULE_MOD_STOPPED: a "left RUNNING" notification that matches
 * no "entered RUNNING" one. The one-to-one correspondence is broken (stopped > started).
 */
#include <module/ctx.h>
#include <module/mod.h>
#include <stdio.h>
#include <string.h>

static m_mod_t *obs, *worker;
static int n_started, n_stopped;
static char trace[256];
static bool was_running_in_hook;
static int on_stop_calls;

static bool obs_start(m_mod_t *self) {
    m_mod_ps_subscribe(self, M_PS_MOD_STARTED, 0, NULL);
    m_mod_ps_subscribe(self, M_PS_MOD_STOPPED, 0, NULL);
    return true;
}
static void obs_evt(m_mod_t *self, const m_queue_t *const evts) {
    m_itr_foreach(evts, {
        m_evt_t *e = m_itr_get(m_itr);
        if (e->type != M_SRC_TYPE_PS || !e->ps_evt->system || e->ps_evt->sender != worker) {
            continue;
        }
        if (!strcmp(e->ps_evt->topic, M_PS_MOD_STARTED)) {
            n_started++;
            strcat(trace, " STARTED");
        } else if (!strcmp(e->ps_evt->topic, M_PS_MOD_STOPPED)) {
            n_stopped++;
            strcat(trace, " STOPPED");
        }
    });
}

static bool worker_start(m_mod_t *self) {
    was_running_in_hook = m_mod_is(self, M_MOD_RUNNING);
    return false;   // "I cannot run right now"
}
static void worker_stop(m_mod_t *self) { on_stop_calls++; }
static void worker_evt(m_mod_t *self, const m_queue_t *const evts) { }
static bool never(m_mod_t *self) { return false; } // keep the loop from starting worker by itself

int main(void) {
    m_mod_hook_t oh = { .on_start = obs_start, .on_evt = obs_evt };
    m_mod_hook_t wh = { .on_start = worker_start, .on_eval = never, .on_evt = worker_evt, .on_stop = worker_stop };

    m_ctx_register("demo", M_CTX_PERSIST, NULL);
    m_mod_register("obs", &obs, &oh, 0, NULL);
    m_mod_register("worker", &worker, &wh, 0, NULL);
    m_mod_start(obs);
    m_ctx_dispatch();                       // loop start (dispatch mode)

    int ret = m_mod_start(worker);          // IDLE -> RUNNING -> (on_start false) -> STOPPED
    for (int i = 0; i < 20; i++) {
        m_ctx_dispatch();
    }
    printf("m_mod_start(worker) = %d; worker was RUNNING inside on_start: %d; on_stop calls: %d; state now %#x\n",
           ret, was_running_in_hook, on_stop_calls, m_mod_state(worker));
    printf("notifications naming worker:%s  (started=%d stopped=%d)\n", trace, n_started, n_stopped);

    m_ctx_quit(0);
    m_ctx_dispatch();
    m_mod_deregister(&worker);
    m_mod_deregister(&obs);
    m_ctx_deregister();

    if (n_stopped != n_started) {
        printf("FAIL: worker entered RUNNING once and left it once, observer got %d 'entered' and %d 'left' notifications\n",
               n_started, n_stopped);
        return 1;
    }
    printf("PASS\n");
    return 0;
}

/*
 * C19 - ticks are queued, one per period, into the mailbox of a PAUSED subscriber:
 *  (a) on resume they all arrive at once, microseconds apart: far more often than the configured period;
 *  (b) once they have filled the mailbox (a pipe), every further notification to the paused module
 *      is silently dropped: the MOD_STOPPED for a module stopped meanwhile is never delivered.
 */
#include <module/ctx.h>
#include <module/mod.h>
#include <stdio.h>
#include <string.h>
#include <time.h>

static m_mod_t *sub, *other;
static long ticks;
static int stopped_other;

static uint64_t now_ns(void) {
    struct timespec t;
    clock_gettime(CLOCK_MONOTONIC, &t);
    return t.tv_sec * 1000000000ull + t.tv_nsec;
}

static bool sub_start(m_mod_t *self) {
    m_mod_ps_subscribe(self, M_PS_CTX_TICK, 0, NULL);
    m_mod_ps_subscribe(self, M_PS_MOD_STOPPED, 0, NULL);
    return true;
}
static void sub_evt(m_mod_t *self, const m_queue_t *const evts) {
    m_itr_foreach(evts, {
        m_evt_t *e = m_itr_get(m_itr);
        if (e->type != M_SRC_TYPE_PS || !e->ps_evt->system) {
            continue;
        }
        if (!strcmp(e->ps_evt->topic, M_PS_CTX_TICK)) {
            ticks++;
        } else if (!strcmp(e->ps_evt->topic, M_PS_MOD_STOPPED) && e->ps_evt->sender == other) {
            stopped_other++;
        }
    });
}
static void noop_evt(m_mod_t *self, const m_queue_t *const evts) { }

static void pump_for(uint64_t ns) {
    uint64_t end = now_ns() + ns;
    while (now_ns() < end) {
        m_ctx_dispatch();
    }
}

int main(void) {
    int fail = 0;
    m_mod_hook_t sh = { .on_start = sub_start, .on_evt = sub_evt };
    m_mod_hook_t oh = { .on_evt = noop_evt };

    m_ctx_register("demo", M_CTX_PERSIST, NULL);
    m_mod_register("sub", &sub, &sh, 0, NULL);
    m_mod_register("other", &other, &oh, 0, NULL);

    /* (a) tick every 5 ms */
    m_ctx_set_tick(5000000ull);
    m_ctx_dispatch();                  // loop starts, both modules started
    pump_for(100000000ull);
    printf("(a) period 5ms, sub running: %ld ticks in 100ms\n", ticks);
    m_mod_pause(sub);
    pump_for(1000000000ull);           // paused for 1 s
    m_mod_resume(sub);
    ticks = 0;
    pump_for(50000000ull);
    printf("(a) period 5ms, first 50ms after a 1s pause: %ld ticks (at most 11-12 can fit at the configured period)\n", ticks);
    if (ticks > 12) {
        printf("FAIL: tick notifications arrived more often than the configured period\n");
        fail = 1;
    }

    /* (b) tick every 0.1 ms: ~15000 ticks elapse while paused, the mailbox (a pipe) holds 8192 messages */
    m_ctx_set_tick(100000ull);
    m_mod_pause(sub);
    pump_for(1500000000ull);
    int r = m_mod_stop(other);         // sub is PAUSED and subscribed: must be told
    printf("(b) m_mod_stop(other) = %d while sub is paused\n", r);
    m_ctx_set_tick(0);
    ticks = 0;
    m_mod_resume(sub);
    pump_for(2000000000ull);
    printf("(b) after resume: %ld queued ticks delivered, MOD_STOPPED(other) notifications: %d (expected 1)\n", ticks, stopped_other);
    if (stopped_other != 1) {
        printf("FAIL: MOD_STOPPED notification for 'other' lost (mailbox was full of ticks)\n");
        fail = 1;
    }

    m_ctx_quit(0);
    m_ctx_dispatch();
    m_mod_deregister(&other);
    m_mod_deregister(&sub);
    m_ctx_deregister();
    if (!fail) printf("PASS\n");
    return fail;
}

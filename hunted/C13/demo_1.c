/*
 * C13 demo 1: the token-bucket refill timer makes the handler run for LOW priority events.
 *
 * Module "A" subscribes to topic "low" with M_SRC_PRIO_LOW and configures neither a batch size
 * nor a batch timeout. Module "B" publishes one message on "low" after 50ms and, at 400ms,
 * looks at how many times A's handler ran. Nothing of high or normal priority ever reaches A,
 * so the expected number of invocations at that point is 0 (the low event must wait for a later one).
 *
 * Scenario 0 (control): no token bucket on A           -> 0 invocations (correct)
 * Scenario 1          : m_mod_set_tokenbucket(A,50,100) -> handler runs ~20ms after the publish
 * Scenario 2          : tokenbucket + batch size 3, three LOW messages, no NORM/HIGH one -> handler runs
 */
#include <module/mod.h>
#include <module/ctx.h>
#include <module/structs/queue.h>
#include <stdio.h>
#include <string.h>

static int scenario;
static int a_calls, a_events;
static int calls_at_check = -1, events_at_check = -1;
static m_mod_t *A, *B;

static bool a_start(m_mod_t *m) {
    int r = m_mod_ps_subscribe(m, "low", M_SRC_PRIO_LOW, NULL);
    if (scenario >= 1) {
        r |= m_mod_set_tokenbucket(m, 50, 100); /* refill every 20ms, plenty of tokens */
    }
    if (scenario == 2) {
        r |= m_mod_set_batch_size(m, 3);
    }
    if (r) printf("setup error %d\n", r);
    return true;
}

static void a_evt(m_mod_t *m, const m_queue_t *const evts) {
    a_calls++;
    a_events += m_queue_len(evts);
    if (calls_at_check == -1) {
        m_itr_foreach(evts, {
            m_evt_t *e = m_itr_get(m_itr);
            printf("  [A] handler invoked: evt %zu type=%d topic=%s\n", m_idx, e->type,
                   e->type == M_SRC_TYPE_PS && e->ps_evt->topic ? e->ps_evt->topic : "-");
        });
    }
}

static bool b_start(m_mod_t *m) {
    static const m_src_tmr_t pub = { CLOCK_MONOTONIC, 50 * 1000000ull };
    static const m_src_tmr_t chk = { CLOCK_MONOTONIC, 400 * 1000000ull };
    m_mod_src_register_tmr(m, &pub, M_SRC_ONESHOT, (void *)1);
    m_mod_src_register_tmr(m, &chk, M_SRC_ONESHOT, (void *)2);
    return true;
}

static void b_evt(m_mod_t *m, const m_queue_t *const evts) {
    m_itr_foreach(evts, {
        m_evt_t *e = m_itr_get(m_itr);
        if (e->type != M_SRC_TYPE_TMR) continue;
        if (e->userdata == (void *)1) {
            int n = scenario == 2 ? 3 : 1;
            for (int i = 0; i < n; i++) m_mod_ps_publish(m, "low", "x", 0);
        } else {
            calls_at_check = a_calls;
            events_at_check = a_events;
            m_ctx_quit(0);
        }
    });
}

int main(void) {
    int fail = 0;
    for (scenario = 0; scenario < 3; scenario++) {
        a_calls = a_events = 0;
        calls_at_check = events_at_check = -1;
        m_mod_hook_t ha = { .on_start = a_start, .on_evt = a_evt };
        m_mod_hook_t hb = { .on_start = b_start, .on_evt = b_evt };
        m_ctx_register("c13", 0, NULL);
        m_mod_register("A", &A, &ha, 0, NULL);
        m_mod_register("B", &B, &hb, 0, NULL);
        printf("scenario %d:\n", scenario);
        m_ctx_loop();
        printf("  350ms after the LOW publish(es): handler invocations=%d events=%d (expected 0/0)%s\n",
               calls_at_check, events_at_check, calls_at_check ? "  <-- FAIL" : "  ok");
        fail |= calls_at_check != 0;
        m_mod_deregister(&A);
        m_mod_deregister(&B);
    }
    printf(fail ? "FAIL\n" : "PASS\n");
    return fail;
}

/*
 * C13 demo 3: a configured batch timeout is silently defeated by m_mod_set_batch_size(mod, 0).
 *
 * "Batch size 0" means "no batching by size" (it is the default value, and what reset_module() restores).
 * Module "A" wants timed batching only (300ms). Module "B" publishes three NORM messages on "t"
 * at 50ms, then samples A's handler statistics at 150ms (before the timeout: expected 0 invocations)
 * and at 500ms (after it: expected exactly 1 invocation carrying the 3 events).
 *
 * Scenario 0: m_mod_set_batch_size(A, 0); m_mod_set_batch_timeout(A, 300ms)   -> as expected
 * Scenario 1: m_mod_set_batch_timeout(A, 300ms); m_mod_set_batch_size(A, 0)   -> every event delivered at once
 * Scenario 2: size 2 + timeout 300ms, later the size trigger is dropped with m_mod_set_batch_size(A, 0)
 *                                                                             -> every event delivered at once
 */
#include <module/mod.h>
#include <module/ctx.h>
#include <module/structs/queue.h>
#include <stdio.h>
#include <string.h>

#define MS 1000000ull
static int scenario;
static int a_calls, a_events;
static int calls_150, calls_500, events_500;
static m_mod_t *A, *B;

static bool a_start(m_mod_t *m) {
    int r = m_mod_ps_subscribe(m, "t", 0, NULL);
    switch (scenario) {
    case 0:
        r |= m_mod_set_batch_size(m, 0);
        r |= m_mod_set_batch_timeout(m, 300 * MS);
        break;
    case 1:
        r |= m_mod_set_batch_timeout(m, 300 * MS);
        r |= m_mod_set_batch_size(m, 0);
        break;
    case 2:
        r |= m_mod_set_batch_size(m, 2);
        r |= m_mod_set_batch_timeout(m, 300 * MS);
        r |= m_mod_set_batch_size(m, 0); /* only the timeout from now on */
        break;
    }
    if (r) printf("  setup error %d\n", r);
    return true;
}

static void a_evt(m_mod_t *m, const m_queue_t *const evts) {
    a_calls++;
    a_events += m_queue_len(evts);
}

static bool b_start(m_mod_t *m) {
    static const m_src_tmr_t t1 = { CLOCK_MONOTONIC, 50 * MS };
    static const m_src_tmr_t t2 = { CLOCK_MONOTONIC, 150 * MS };
    static const m_src_tmr_t t3 = { CLOCK_MONOTONIC, 500 * MS };
    m_mod_src_register_tmr(m, &t1, M_SRC_ONESHOT, (void *)1);
    m_mod_src_register_tmr(m, &t2, M_SRC_ONESHOT, (void *)2);
    m_mod_src_register_tmr(m, &t3, M_SRC_ONESHOT, (void *)3);
    return true;
}

static void b_evt(m_mod_t *m, const m_queue_t *const evts) {
    m_itr_foreach(evts, {
        m_evt_t *e = m_itr_get(m_itr);
        if (e->type != M_SRC_TYPE_TMR) continue;
        if (e->userdata == (void *)1) {
            for (int i = 0; i < 3; i++) m_mod_ps_publish(m, "t", "x", 0);
        } else if (e->userdata == (void *)2) {
            calls_150 = a_calls;
        } else {
            calls_500 = a_calls;
            events_500 = a_events;
            m_ctx_quit(0);
        }
    });
}

int main(void) {
    int fail = 0;
    for (scenario = 0; scenario < 3; scenario++) {
        a_calls = a_events = 0;
        calls_150 = calls_500 = events_500 = -1;
        m_mod_hook_t ha = { .on_start = a_start, .on_evt = a_evt };
        m_mod_hook_t hb = { .on_start = b_start, .on_evt = b_evt };
        m_ctx_register("c13", 0, NULL);
        m_mod_register("A", &A, &ha, 0, NULL);
        m_mod_register("B", &B, &hb, 0, NULL);
        printf("scenario %d:\n", scenario);
        m_ctx_loop();
        int bad = calls_150 != 0 || calls_500 != 1 || events_500 != 3;
        printf("  t=150ms: invocations=%d (expected 0); t=500ms: invocations=%d events=%d (expected 1 / 3)%s\n",
               calls_150, calls_500, events_500, bad ? "  <-- FAIL" : "  ok");
        fail |= bad;
        m_mod_deregister(&A);
        m_mod_deregister(&B);
    }
    printf(fail ? "FAIL\n" : "PASS\n");
    return fail;
}

/*
 * C13 demo 2: a REFUSED m_mod_set_batch_timeout() still switches the module to
 * "timed batching" (batch.len = SIZE_MAX) but leaves it without any batch timer:
 * normal priority events are then accumulated forever.
 *
 * Module "A" subscribes to "t" (normal priority). Module "B" publishes one message on "t"
 * after 50ms and looks at A's handler invocation count 550ms later.
 *
 * Scenario 0 (control): no batching at all                        -> delivered at once (1 invocation)
 * Scenario 1: A is throttled by its token bucket, thus m_mod_set_batch_timeout(A, 100ms)
 *             returns -EAGAIN                                      -> expected: delivered (at once, or after 100ms at worst)
 * Scenario 2: process is out of descriptors (RLIMIT_NOFILE), thus m_mod_set_batch_timeout(A, 100ms)
 *             fails (timerfd cannot be created)                    -> same expectation
 * Scenario 3: a working 100ms timeout is in place; a second call (200ms) is refused with -EAGAIN
 *                                                                  -> expected: delivered within 100ms (or 200ms)
 * In 1,2,3 the message is never delivered while the loop runs.
 */
#include <module/mod.h>
#include <module/ctx.h>
#include <module/structs/queue.h>
#include <sys/resource.h>
#include <stdio.h>
#include <string.h>

#define MS 1000000ull
static int scenario;
static int a_calls, calls_at_check;
static m_mod_t *A, *B;

static bool a_start(m_mod_t *m) {
    int r = m_mod_ps_subscribe(m, "t", 0, NULL);
    if (r) printf("  subscribe: %d\n", r);
    switch (scenario) {
    case 1:
        /* burst 1: the only token is used by the bucket's own bookkeeping, 1 token/s afterwards */
        r = m_mod_set_tokenbucket(m, 1, 1);
        printf("  m_mod_set_tokenbucket(A, 1, 1) = %d\n", r);
        r = m_mod_set_batch_timeout(m, 100 * MS);
        printf("  m_mod_set_batch_timeout(A, 100ms) = %d (%s)\n", r, strerror(-r));
        break;
    case 2: {
        struct rlimit old, lim;
        getrlimit(RLIMIT_NOFILE, &old);
        lim = old;
        lim.rlim_cur = 3; /* no new descriptor can be created */
        setrlimit(RLIMIT_NOFILE, &lim);
        r = m_mod_set_batch_timeout(m, 100 * MS);
        setrlimit(RLIMIT_NOFILE, &old);
        printf("  m_mod_set_batch_timeout(A, 100ms) = %d (%s)\n", r, strerror(-r));
        break; }
    case 3:
        r = m_mod_set_batch_timeout(m, 100 * MS);
        printf("  m_mod_set_batch_timeout(A, 100ms) = %d\n", r);
        r = m_mod_set_tokenbucket(m, 1, 1);
        printf("  m_mod_set_tokenbucket(A, 1, 1) = %d\n", r);
        r = m_mod_set_batch_timeout(m, 200 * MS);
        printf("  m_mod_set_batch_timeout(A, 200ms) = %d (%s)\n", r, strerror(-r));
        break;
    }
    return true;
}

static void a_evt(m_mod_t *m, const m_queue_t *const evts) {
    a_calls++;
}

static bool b_start(m_mod_t *m) {
    static const m_src_tmr_t pub = { CLOCK_MONOTONIC, 50 * MS };
    static const m_src_tmr_t chk = { CLOCK_MONOTONIC, 600 * MS };
    m_mod_src_register_tmr(m, &pub, M_SRC_ONESHOT, (void *)1);
    m_mod_src_register_tmr(m, &chk, M_SRC_ONESHOT, (void *)2);
    return true;
}

static void b_evt(m_mod_t *m, const m_queue_t *const evts) {
    m_itr_foreach(evts, {
        m_evt_t *e = m_itr_get(m_itr);
        if (e->type != M_SRC_TYPE_TMR) continue;
        if (e->userdata == (void *)1) {
            m_mod_ps_publish(m, "t", "x", 0);
        } else {
            calls_at_check = a_calls;
            m_ctx_quit(0);
        }
    });
}

int main(void) {
    int fail = 0;
    for (scenario = 0; scenario < 4; scenario++) {
        a_calls = 0;
        calls_at_check = -1;
        m_mod_hook_t ha = { .on_start = a_start, .on_evt = a_evt };
        m_mod_hook_t hb = { .on_start = b_start, .on_evt = b_evt };
        m_ctx_register("c13", 0, NULL);
        m_mod_register("A", &A, &ha, 0, NULL);
        m_mod_register("B", &B, &hb, 0, NULL);
        printf("scenario %d:\n", scenario);
        m_ctx_loop();
        printf("  550ms after the NORM publish: handler invocations=%d (expected 1)%s\n",
               calls_at_check, calls_at_check != 1 ? "  <-- FAIL" : "  ok");
        fail |= calls_at_check != 1;
        m_mod_deregister(&A);
        m_mod_deregister(&B);
    }
    printf(fail ? "FAIL\n" : "PASS\n");
    return fail;
}

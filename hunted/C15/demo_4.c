/*
 * C15 finding 4: a M_MOD_PERSIST module is deregistered by a direct m_mod_deregister()
 * call from an ordinary event handler while m_ctx_loop() is still running.
 *
 * loop_stop() flips the context to "idle" BEFORE it hands out the messages that are still
 * queued (the flush). A handler that runs in that flush - here for an ordinary user message
 * published before m_ctx_quit() - passes the persist check that refused the very same call
 * a moment earlier. The handler has not even been told that the loop is stopping.
 */
#include <module/ctx.h>
#include <module/mod.h>
#include <module/mem/mem.h>
#include <module/structs/queue.h>
#include <stdio.h>
#include <string.h>
#include <errno.h>

static int fails;
static bool in_loop;
static m_mod_t *persistent, *worker, *driver;

static void noop_evt(m_mod_t *self, const m_queue_t *const evts) { }
static void persistent_stop(m_mod_t *self) { printf("  persistent module's on_stop() runs (m_ctx_loop() has %sreturned)\n", in_loop ? "NOT " : ""); }

static void worker_evt(m_mod_t *self, const m_queue_t *const evts) {
    m_itr_foreach(evts, {
        m_evt_t *e = m_itr_get(m_itr);
        if (e->type == M_SRC_TYPE_PS && !e->ps_evt->system) {
            int r = m_mod_deregister(&persistent);
            printf("  worker, handling \"%s\" inside m_ctx_loop(): m_mod_deregister(&persistent) -> %d%s\n",
                   (const char *)e->ps_evt->data, r, r == -EPERM ? " (refused, ok)" : "   <-- FAIL: persistent module deregistered");
            if (r != -EPERM) fails++;
        }
    });
}

static void driver_evt(m_mod_t *self, const m_queue_t *const evts) {
    m_itr_foreach(evts, {
        m_evt_t *e = m_itr_get(m_itr);
        if (e->type == M_SRC_TYPE_TMR) {
            static int tick;
            if (++tick == 1) {
                m_mod_ps_publish(self, "job", "job #1", 0);
            } else if (tick == 2) {
                /* second job, then ask the loop to end */
                m_mod_ps_publish(self, "job", "job #2", 0);
                printf("  driver: m_ctx_quit() -> %d\n", m_ctx_quit(0));
                printf("  driver, after m_ctx_quit(): m_mod_deregister(&persistent) -> %d\n", m_mod_deregister(&persistent));
            }
        }
    });
}

int main(void) {
    setvbuf(stdout, NULL, _IONBF, 0);
    m_mod_hook_t ph = { .on_evt = noop_evt, .on_stop = persistent_stop };
    m_mod_hook_t wh = { .on_evt = worker_evt };
    m_mod_hook_t dh = { .on_evt = driver_evt };
    static m_src_tmr_t tmr = { CLOCK_MONOTONIC, 5000000 };

    m_ctx_register("ctx", M_CTX_PERSIST, NULL);
    m_mod_register("persistent", &persistent, &ph, M_MOD_PERSIST, NULL);
    m_mod_register("worker", &worker, &wh, 0, NULL);
    m_mod_register("driver", &driver, &dh, 0, NULL);
    m_mod_ps_subscribe(worker, "job", 0, NULL);
    m_mod_src_register_tmr(driver, &tmr, 0, NULL);

    in_loop = true;
    int r = m_ctx_loop();
    in_loop = false;
    printf("m_ctx_loop() -> %d; modules left: %zd (3 expected), persistent handle %s\n", r, m_ctx_len(), persistent ? "still valid" : "gone");

    m_mem_unref(persistent);
    m_mem_unref(worker);
    m_mem_unref(driver);
    m_ctx_deregister();
    printf("%s\n", fails ? "FAIL" : "PASS");
    return fails != 0;
}

/*
 * C15 finding 2: the deny flags are checked on the handle that is passed in,
 * not on the module whose callback is executing.
 *
 * "gagged" carries M_MOD_DENY_PUB | M_MOD_DENY_SUB. From its own on_evt callback it
 *   - gets refused when it publishes / subscribes with its own handle (correct), but
 *   - publishes, tells and poison-pills just fine through the handle of another module
 *     (m_mod_lookup(), or the `sender` of any message it received), and
 *   - rewrites that other module's subscriptions.
 * The messages are delivered to the subscribers: the module that "cannot publish" has published.
 */
#include <module/ctx.h>
#include <module/mod.h>
#include <module/mem/mem.h>
#include <module/structs/queue.h>
#include <stdio.h>
#include <string.h>
#include <errno.h>

static int fails;
static int delivered;         // user messages that reached "listener"
static m_mod_t *listener, *gagged, *victim;
static bool victim_stopped;

static void listener_evt(m_mod_t *self, const m_queue_t *const evts) {
    m_itr_foreach(evts, {
        m_evt_t *e = m_itr_get(m_itr);
        if (e->type == M_SRC_TYPE_PS && !e->ps_evt->system) {
            printf("  listener received: topic=%s data=\"%s\" sender=%s\n",
                   e->ps_evt->topic ? e->ps_evt->topic : "(direct tell)",
                   (const char *)e->ps_evt->data, m_mod_name(e->ps_evt->sender));
            delivered++;
        } else if (e->type == M_SRC_TYPE_TMR) {
            m_ctx_quit(0);
        }
    });
}

static void victim_evt(m_mod_t *self, const m_queue_t *const evts) { }
static void victim_stop(m_mod_t *self) { victim_stopped = true; }

#define DENIED(what, call) do { int r_ = (call); printf("  %-58s -> %d (must be refused)%s\n", what, r_, r_ < 0 ? "" : "   <-- FAIL"); if (r_ >= 0) fails++; } while (0)

static void gagged_evt(m_mod_t *self, const m_queue_t *const evts) {
    m_itr_foreach(evts, {
        m_evt_t *e = m_itr_get(m_itr);
        if (e->type != M_SRC_TYPE_TMR) {
            continue;
        }
        printf("[inside on_evt of '%s', flags DENY_PUB|DENY_SUB]\n", m_mod_name(self));
        printf(" own handle:\n");
        DENIED("m_mod_ps_publish(self, \"news\", ...)", m_mod_ps_publish(self, "news", "own handle", 0));
        DENIED("m_mod_ps_tell(self, listener, ...)", m_mod_ps_tell(self, listener, "own handle", 0));
        DENIED("m_mod_ps_subscribe(self, \"news\")", m_mod_ps_subscribe(self, "news", 0, NULL));

        m_mod_t *other = m_mod_lookup(self, "victim");
        printf(" handle of another module, obtained with m_mod_lookup(self, \"victim\"):\n");
        DENIED("m_mod_ps_publish(other, \"news\", ...)", m_mod_ps_publish(other, "news", "published by the gagged module", 0));
        DENIED("m_mod_ps_tell(other, listener, ...)", m_mod_ps_tell(other, listener, "told by the gagged module", 0));
        DENIED("m_mod_ps_subscribe(other, \"whatever\")", m_mod_ps_subscribe(other, "whatever", 0, NULL));
        DENIED("m_mod_ps_unsubscribe(other, \"important\")", m_mod_ps_unsubscribe(other, "important"));
        printf("  victim subscriptions now: %zd, i.e. \"whatever\" (it had 1: \"important\")\n", m_mod_src_len(other, M_SRC_TYPE_PS));
        DENIED("m_mod_ps_poisonpill(other, other)", m_mod_ps_poisonpill(other, other));
    });
}

int main(void) {
    setvbuf(stdout, NULL, _IONBF, 0);
    m_mod_hook_t lh = { .on_evt = listener_evt };
    m_mod_hook_t gh = { .on_evt = gagged_evt };
    m_mod_hook_t vh = { .on_evt = victim_evt, .on_stop = victim_stop };
    static m_src_tmr_t soon = { CLOCK_MONOTONIC, 2000000 };
    static m_src_tmr_t later = { CLOCK_MONOTONIC, 100000000 };

    m_ctx_register("ctx", M_CTX_PERSIST, NULL);
    m_mod_register("listener", &listener, &lh, 0, NULL);
    m_mod_register("victim", &victim, &vh, 0, NULL);
    m_mod_register("gagged", &gagged, &gh, M_MOD_DENY_PUB | M_MOD_DENY_SUB, NULL);
    m_mod_ps_subscribe(listener, "news", 0, NULL);
    m_mod_ps_subscribe(victim, "important", 0, NULL);
    m_mod_src_register_tmr(listener, &later, M_SRC_ONESHOT, NULL);
    m_mod_src_register_tmr(gagged, &soon, M_SRC_ONESHOT, NULL);

    m_ctx_loop();

    printf("user messages delivered to listener: %d (expected 0: the only sender was denied publishing)\n", delivered);
    printf("victim stopped by the poison pill sent in its own name: %s\n", victim_stopped ? "yes" : "no");
    if (delivered) fails++;

    m_mem_unref(listener);
    m_mem_unref(victim);
    m_mem_unref(gagged);
    m_ctx_deregister();
    printf("%s\n", fails ? "FAIL" : "PASS");
    return fails != 0;
}

/*
 * C15 finding 3: replacing a module (M_MOD_ALLOW_REPLACE) tears the old one down
 * BEFORE the library knows that the new one can be registered, and before it has
 * taken its own copy of the name.
 *
 *  (a) a registration that fails after the lookup (here: hook == NULL, ie. "load this
 *      plugin", and dlopen() fails) returns an error AND has destroyed the live module:
 *      the name is now free, nothing is registered under it.
 *  (b) the replaced module's on_stop() runs in the middle of m_mod_register(); if it
 *      registers the name itself, the outer call collides with a live name and
 *      reports -ENOMEM instead of -EEXIST.
 *  (c) run with argument "uaf": m_mod_register(m_mod_name(old), ..., M_MOD_NAME_DUP)
 *      reads the name after the old module (owner of the string) was freed
 *      -> heap-use-after-free under ASan.
 */
#include <module/ctx.h>
#include <module/mod.h>
#include <module/mem/mem.h>
#include <module/structs/queue.h>
#include <stdio.h>
#include <string.h>
#include <errno.h>

static int fails;
static void on_evt(m_mod_t *self, const m_queue_t *const evts) { }
static void on_stop_log(m_mod_t *self) { printf("  on_stop('%s') ran: the live module is being torn down\n", m_mod_name(self)); }
static m_mod_hook_t plain = { .on_evt = on_evt };

static void on_stop_rereg(m_mod_t *self) {
    int r = m_mod_register("svc", NULL, &plain, 0, NULL);
    printf("  on_stop of the replaced module registers \"svc\" itself -> %d\n", r);
}

int main(int argc, char *argv[]) {
    setvbuf(stdout, NULL, _IONBF, 0);
    m_mod_hook_t h = { .on_evt = on_evt, .on_stop = on_stop_log };
    m_mod_t *keeper = NULL;

    m_ctx_register("ctx", M_CTX_PERSIST, NULL);
    m_mod_register("keeper", &keeper, &plain, 0, NULL);

    if (argc > 1 && !strcmp(argv[1], "uaf")) {
        printf("(c) replace a module passing its own name string\n");
        m_mod_register("svc", NULL, &plain, M_MOD_ALLOW_REPLACE | M_MOD_NAME_DUP, NULL);
        m_mod_t *old = m_mod_lookup(keeper, "svc");
        m_mod_t *new = NULL;
        int r = m_mod_register(m_mod_name(old), &new, &plain, M_MOD_ALLOW_REPLACE | M_MOD_NAME_DUP, NULL);
        printf("  -> %d, new module is called '%s'\n", r, m_mod_name(new));
        return 0;
    }

    printf("(a) failed replacement\n");
    int r = m_mod_register("svc", NULL, &h, M_MOD_ALLOW_REPLACE, NULL);
    printf("  register \"svc\" (ALLOW_REPLACE) -> %d; modules in ctx: %zd\n", r, m_ctx_len());
    r = m_mod_register("svc", NULL, NULL /* plugin: dlopen(\"svc\") cannot succeed */, 0, NULL);
    m_mod_t *still = m_mod_lookup(keeper, "svc");
    printf("  register \"svc\" again, as a plugin that does not exist -> %d (%s)\n", r, strerror(-r));
    printf("  modules in ctx: %zd, lookup(\"svc\") = %p\n", m_ctx_len(), (void *)still);
    if (r != 0 && still == NULL) {
        printf("  FAIL: the call failed, yet the module that was live under the name is gone\n");
        fails++;
    }

    printf("(b) name taken again while the replacement is in progress\n");
    m_mod_hook_t h2 = { .on_evt = on_evt, .on_stop = on_stop_rereg };
    r = m_mod_register("svc", NULL, &h2, M_MOD_ALLOW_REPLACE, NULL);
    printf("  register \"svc\" (ALLOW_REPLACE) -> %d\n", r);
    r = m_mod_register("svc", NULL, &plain, 0, NULL);
    printf("  register \"svc\" again -> %d (%s); -EEXIST is %d\n", r, strerror(-r), -EEXIST);
    m_mod_t *live = m_mod_lookup(keeper, "svc");
    printf("  live \"svc\" allows replacement: no -> a second registration must fail with -EEXIST\n");
    if (live && r != -EEXIST) {
        printf("  FAIL: collision with a live, non replaceable name reported as %d (out of memory)\n", r);
        fails++;
    }

    m_mem_unref(keeper);
    m_ctx_deregister();
    printf("%s\n", fails ? "FAIL" : "PASS");
    return fails != 0;
}

/*
 * C15 finding 1: M_MOD_DENY_CTX denies far more than the context API.
 *
 * A module registered with ONLY M_MOD_DENY_CTX (no M_MOD_DENY_PUB, no M_MOD_DENY_SUB)
 * cannot subscribe, publish/tell, log, register a timer, become ... on ITS OWN handle
 * from any of its callbacks: every m_mod_*() call returns -EPERM.
 * The very same calls succeed for a flag-less module, and succeed on the same
 * DENY_CTX module when issued from outside a callback.
 */
#include <module/ctx.h>
#include <module/mod.h>
#include <module/mem/mem.h>
#include <module/structs/queue.h>
#include <stdio.h>
#include <string.h>
#include <errno.h>

static int fails;
static m_mod_t *peer;

#define EXPECT(what, got, want) do { \
    int g_ = (got); \
    printf("  %-52s -> %4d (expected %s)%s\n", what, g_, (want) ? "denied" : "0", \
           ((want) ? g_ < 0 : g_ == 0) ? "" : "   <-- FAIL"); \
    if (!((want) ? g_ < 0 : g_ == 0)) fails++; } while (0)

static void quiet_logger(const m_mod_t *ref, const char *fmt, va_list args) { }
static void other_recv(m_mod_t *self, const m_queue_t *const evts) { }

static void probe(m_mod_t *self, const char *where) {
    const bool deny_ctx = !strcmp(m_mod_name(self), "denyctx");
    static m_src_tmr_t tmr = { CLOCK_MONOTONIC, 3600ULL * 1000000000ULL };
    printf("[%s / %s]\n", m_mod_name(self), where);
    /* the one class M_MOD_DENY_CTX is about: context calls */
    EXPECT("m_ctx_len()  (context call)", m_ctx_len() < 0 ? (int)m_ctx_len() : 0, deny_ctx);
    /* classes governed by OTHER flags, which this module does not carry */
    EXPECT("m_mod_ps_subscribe(self, \"topic\")  [no DENY_SUB]", m_mod_ps_subscribe(self, "topic", 0, NULL), false);
    EXPECT("m_mod_ps_unsubscribe(self, \"topic\") [no DENY_SUB]", m_mod_ps_unsubscribe(self, "topic"), false);
    EXPECT("m_mod_ps_publish(self, \"x\", ...)    [no DENY_PUB]", m_mod_ps_publish(self, "x", "data", 0), false);
    EXPECT("m_mod_ps_tell(self, peer, ...)      [no DENY_PUB]", m_mod_ps_tell(self, peer, "data", 0), false);
    /* unrestricted module calls */
    EXPECT("m_mod_log(self, ...)", m_mod_log(self, "%s", ""), false);
    EXPECT("m_mod_src_register_tmr(self, ...)", m_mod_src_register_tmr(self, &tmr, 0, NULL), false);
    EXPECT("m_mod_src_deregister_tmr(self, ...)", m_mod_src_deregister_tmr(self, &tmr), false);
    if (m_mod_is(self, M_MOD_RUNNING)) {
        EXPECT("m_mod_become(self, ...)", m_mod_become(self, other_recv), false);
        EXPECT("m_mod_unbecome(self)", m_mod_unbecome(self), false);
    }
}

static bool on_start(m_mod_t *self) { probe(self, "on_start"); return true; }
static void on_evt(m_mod_t *self, const m_queue_t *const evts) {
    m_itr_foreach(evts, {
        m_evt_t *e = m_itr_get(m_itr);
        if (e->type == M_SRC_TYPE_TMR) {
            probe(self, "on_evt");
        }
    });
}
static void on_stop(m_mod_t *self) { }

static void peer_evt(m_mod_t *self, const m_queue_t *const evts) {
    static int ticks;
    m_itr_foreach(evts, {
        m_evt_t *e = m_itr_get(m_itr);
        if (e->type == M_SRC_TYPE_TMR && ++ticks == 2) {
            m_ctx_quit(0);
        }
    });
}

int main(void) {
    setvbuf(stdout, NULL, _IONBF, 0);
    m_mod_t *plain = NULL, *denyctx = NULL;
    m_mod_hook_t hook = { on_start, NULL, on_evt, on_stop };
    m_mod_hook_t peer_hook = { .on_evt = peer_evt };
    static m_src_tmr_t once = { CLOCK_MONOTONIC, 2000000 };
    static m_src_tmr_t peer_tmr = { CLOCK_MONOTONIC, 20000000 };

    m_ctx_register("ctx", M_CTX_PERSIST, NULL);
    m_ctx_set_logger(quiet_logger);
    m_mod_register("peer", &peer, &peer_hook, 0, NULL);
    m_mod_src_register_tmr(peer, &peer_tmr, 0, NULL);
    m_mod_register("plain", &plain, &hook, 0, NULL);
    m_mod_register("denyctx", &denyctx, &hook, M_MOD_DENY_CTX, NULL);
    m_mod_src_register_tmr(plain, &once, M_SRC_ONESHOT, NULL);
    m_mod_src_register_tmr(denyctx, &once, M_SRC_ONESHOT, NULL);

    /* Outside of any callback the very same handle is perfectly usable: the flag is not "on the handle" */
    printf("[denyctx / from main(), no callback executing]\n");
    EXPECT("m_mod_ps_subscribe(denyctx, \"fromMain\")", m_mod_ps_subscribe(denyctx, "fromMain", 0, NULL), false);

    m_ctx_loop();

    m_mem_unref(plain);
    m_mem_unref(denyctx);
    m_mem_unref(peer);
    m_ctx_deregister();
    printf("%s: %d unexpected result(s)\n", fails ? "FAIL" : "PASS", fails);
    return fails != 0;
}

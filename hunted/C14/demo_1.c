/*
 * C14 - the thread-confinement check (M_MOD_ASSERT: mod->ctx == m_ctx()) misfires on the OWNING thread.
 *
 * A module registered with M_MOD_DENY_CTX ("the module won't be able to call ctx API") is refused,
 * with the permission error reserved to foreign threads (-EPERM), every *module* operation it attempts
 * from its own callbacks, on the very thread that owns its context: it cannot subscribe, register a
 * source, publish, tell, stop itself ... The same holds for any other module of the context that is
 * operated from inside such a callback.
 * The identical module registered without the flag succeeds everywhere.
 */
#include <module/mod.h>
#include <module/ctx.h>
#include <stdio.h>
#include <string.h>
#include <errno.h>

static int fails;
static m_mod_t *other;

#define CHECK(call) do { \
    int r_ = (call); \
    printf("  [%s] %-52s -> %d%s\n", m_mod_name(m), #call, r_, r_ == -EPERM ? " (-EPERM)" : ""); \
    if (r_ != 0) fails++; \
} while (0)

static void reg_tmr(m_mod_t *m) {
    m_src_tmr_t t = { CLOCK_MONOTONIC, 1000000 };
    CHECK(m_mod_src_register_tmr(m, &t, 0, NULL));
}

static bool on_start(m_mod_t *m) {
    if (m == other) {
        return true;
    }
    printf("on_start of '%s' (thread owning its context):\n", m_mod_name(m));
    CHECK(m_mod_ps_subscribe(m, "topic", 0, NULL));
    reg_tmr(m);
    CHECK(m_mod_set_batch_size(m, 1));
    CHECK(m_mod_ps_publish(m, "topic", "hello", 0));
    CHECK(m_mod_ps_tell(m, other, "hello", 0));
    CHECK(m_mod_log(m, "hello from %s\n", m_mod_name(m)));
    CHECK(m_mod_pause(other));            /* another module of the same context, same thread */
    CHECK(m_mod_resume(other));
    return true;
}

static void on_evt(m_mod_t *m, const m_queue_t *const evts) { }

static void run(const char *name, m_mod_flags flags) {
    m_mod_hook_t h = { on_start, NULL, on_evt, NULL };
    m_mod_t *m = NULL;
    m_mod_register(name, &m, &h, flags, NULL);
    int r = m_mod_start(m);               /* runs on_start() right here, on this thread */
    printf("m_mod_start('%s') = %d, sources registered by the module: %zd\n\n", name, r, m_mod_src_len(m, M_SRC_TYPE_END));
    m_mod_deregister(&m);
}

int main(void) {
    m_ctx_register("ctx", M_CTX_PERSIST, NULL);
    m_mod_hook_t h = { on_start, NULL, on_evt, NULL };
    m_mod_register("other", &other, &h, 0, NULL);
    m_mod_start(other);

    run("plain", 0);
    const int plain_fails = fails;
    fails = 0;
    run("deny_ctx", M_MOD_DENY_CTX);

    m_mod_deregister(&other);
    m_ctx_deregister();

    if (plain_fails == 0 && fails > 0) {
        printf("FAIL: %d module operations made from the owning thread were refused as if made by a foreign thread\n", fails);
        return 1;
    }
    printf("OK\n");
    return 0;
}

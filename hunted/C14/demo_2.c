/*
 * C14 - contexts on different threads are NOT independent when signal sources are used.
 *
 *   ./demo solo   : one context (main thread). Module "sig" registers a SIGUSR1 source, a timer
 *                   sends one process-directed SIGUSR1 (kill(getpid(), SIGUSR1)): the module gets it. exit 0.
 *   ./demo other  : same context A + a second thread running context B (one module, one timer,
 *                   no signal source at all). The very same SIGUSR1 now kills the whole process.
 *   ./demo task   : like solo, but the module registers a task source before the signal source: the process
 *                   is killed as well (the library's own pool worker does not block the signal).
 *   ./demo both   : context B registers a SIGUSR1 source too. One SIGUSR1 is sent: only ONE of the
 *                   two contexts ever observes it, the other one waits forever (2s watchdog -> FAIL).
 */
#define _GNU_SOURCE
#include <module/mod.h>
#include <module/ctx.h>
#include <pthread.h>
#include <signal.h>
#include <stdio.h>
#include <stdlib.h>
#include <string.h>
#include <unistd.h>

static const char *mode;
static volatile int got_sig[2];           /* [0] ctx A, [1] ctx B */
static volatile int b_ready;

static void reg_sig(m_mod_t *m) { m_src_sgn_t s = { SIGUSR1 }; int r = m_mod_src_register_sgn(m, &s, 0, NULL); if (r) printf("register_sgn: %d\n", r); }
static void reg_tmr(m_mod_t *m, uint64_t ns) { m_src_tmr_t t = { CLOCK_MONOTONIC, ns }; m_mod_src_register_tmr(m, &t, 0, NULL); }

/* ---- context A (main thread) ---- */
static int a_ticks;
static int task_fn(void *p) { return 0; }
static void reg_task(m_mod_t *m) { m_src_task_t t = { 1, task_fn }; m_mod_src_register_task(m, &t, 0, NULL); }
static bool a_start(m_mod_t *m) {
    if (!strcmp(mode, "task")) reg_task(m); /* the library spawns its (long-lived) pool worker now: it inherits a mask without SIGUSR1 */
    reg_sig(m);
    reg_tmr(m, 50 * 1000000ULL);
    return true;
}
static void a_evt(m_mod_t *m, const m_queue_t *const evts) {
    m_itr_foreach(evts, {
        m_evt_t *e = m_itr_get(m_itr);
        if (e->type == M_SRC_TYPE_SGN) {
            printf("[A] got signal %u\n", e->sgn_evt->signo);
            got_sig[0] = 1;
        } else if (e->type == M_SRC_TYPE_TMR) {
            a_ticks++;
            if (a_ticks == 4) {           /* 200ms: B is surely up and looping */
                printf("[A] kill(getpid(), SIGUSR1)\n");
                fflush(stdout);
                kill(getpid(), SIGUSR1);
            }
            if (a_ticks == 44) {          /* 2s after the signal */
                m_ctx_quit(0);
            }
        }
    });
}

/* ---- context B (second thread) ---- */
static bool b_start(m_mod_t *m) { if (!strcmp(mode, "both")) reg_sig(m); reg_tmr(m, 50 * 1000000ULL); b_ready = 1; return true; }
static int b_ticks;
static void b_evt(m_mod_t *m, const m_queue_t *const evts) {
    m_itr_foreach(evts, {
        m_evt_t *e = m_itr_get(m_itr);
        if (e->type == M_SRC_TYPE_SGN) {
            printf("[B] got signal %u\n", e->sgn_evt->signo);
            got_sig[1] = 1;
        } else if (e->type == M_SRC_TYPE_TMR && ++b_ticks == 46) {
            m_ctx_quit(0);
        }
    });
}
static void *thread_b(void *arg) {
    m_ctx_register("B", 0, NULL);
    m_mod_hook_t h = { b_start, NULL, b_evt, NULL };
    m_mod_t *b = NULL;
    m_mod_register("b", &b, &h, 0, NULL);
    m_ctx_loop();
    m_mod_deregister(&b);
    return NULL;
}

int main(int argc, char *argv[]) {
    mode = argc > 1 ? argv[1] : "other";
    setvbuf(stdout, NULL, _IOLBF, 0);

    m_ctx_register("A", 0, NULL);
    m_mod_hook_t h = { a_start, NULL, a_evt, NULL };
    m_mod_t *a = NULL;
    m_mod_register("sig", &a, &h, 0, NULL);
    pthread_t t;
    const int with_b = strcmp(mode, "solo") != 0 && strcmp(mode, "task") != 0;
    if (with_b) {
        /* Both threads are up before any of them registers its sources, as in any program with one context per thread */
        pthread_create(&t, NULL, thread_b, NULL);
        while (!b_ready) usleep(1000);
    }
    m_mod_start(a);                       /* SIGUSR1 source registered by context A */
    m_ctx_loop();
    if (with_b) {
        pthread_join(t, NULL);
    }
    m_mod_deregister(&a);

    int fail = 0;
    if (!got_sig[0] && strcmp(mode, "both")) { printf("FAIL: context A never saw the signal it polls\n"); fail = 1; }
    if (!strcmp(mode, "both") && !(got_sig[0] && got_sig[1])) {
        printf("FAIL: both contexts poll SIGUSR1, one signal sent: A saw it=%d, B saw it=%d\n", got_sig[0], got_sig[1]);
        fail = 1;
    }
    if (!fail) printf("OK (%s)\n", mode);
    return fail;
}

/*
 * C14 - the only module calls a foreign thread is allowed to make (the plain state getters
 * m_mod_is() / m_mod_state()) read mod->state with no synchronisation at all, while the owning
 * thread writes it (start()/stop() in Lib/core/mod.c): a C11 data race, reported by ThreadSanitizer.
 *
 * Build WITH the library sources and -fsanitize=thread (see README.md / build.sh).
 * Exit status 66 (TSan's default "races were reported" status) + "WARNING: ThreadSanitizer: data race".
 */
#include <module/mod.h>
#include <module/ctx.h>
#include <pthread.h>
#include <stdatomic.h>
#include <stdio.h>

static m_mod_t *A;
static atomic_int go, done;

static void on_evt(m_mod_t *m, const m_queue_t *const evts) { }

/* A thread that owns no context: it may only use the getters, and it only does that */
static void *observer(void *arg) {
    long running = 0, stopped = 0;
    while (!go);
    while (!done) {
        running += m_mod_is(A, M_MOD_RUNNING);
        stopped += m_mod_state(A) == M_MOD_STOPPED;
    }
    printf("observer saw RUNNING %ld times, STOPPED %ld times\n", running, stopped);
    return NULL;
}

int main(void) {
    m_ctx_register("A", M_CTX_PERSIST, NULL);
    m_mod_hook_t h = { NULL, NULL, on_evt, NULL };
    m_mod_register("A", &A, &h, 0, NULL);

    pthread_t t;
    pthread_create(&t, NULL, observer, NULL);   /* A is published to the observer by pthread_create */
    go = 1;
    for (int i = 0; i < 2000; i++) {
        m_mod_start(A);
        m_mod_stop(A);
    }
    done = 1;
    pthread_join(t, NULL);

    m_mod_deregister(&A);
    m_ctx_deregister();
    return 0;
}

/* C10 — reference-counted blocks: in-harness refcount model + accounting allocator.
 * usage: mem_blocks <seed> <nseq> <maxops> <sweep_max>
 */
#include "vfh.h"
#include <stddef.h>
#include <stdalign.h>
#include <module/mem/mem.h>
#include <module/ctx.h>

#define MAXB 48
#define MAXCH 4

typedef struct {
    void *p;            /* data pointer, NULL if slot unused */
    size_t size;
    int refs;           /* model reference count */
    bool has_dtor;
    int dtor_runs;
    bool freed;         /* enclosing allocation went back to the allocator */
    bool parked;        /* its destructor kept a reference on it */
    int alloc_by;       /* which of the two allocators was configured when the block was created */
    int children[MAXCH];/* slots whose reference this block owns (dropped in its dtor) */
    int nch;
    int tag;
    uint8_t pat;
} blk_t;

static blk_t B[MAXB];
static int next_tag = 1;
static uint64_t sig;
static const char *cur_ctx = "";
static long long n_dtor, n_nested, n_new, n_ref, n_unref, n_free_seen, n_misaligned;
static unsigned long long seq_seed;
static int op_idx;

static blk_t *by_tag(int tag) {
    for (int i = 0; i < MAXB; i++) if (B[i].tag == tag && B[i].p) return &B[i];
    return NULL;
}
static blk_t *by_ptr(void *p) {
    for (int i = 0; i < MAXB; i++) if (B[i].p == p) return &B[i];
    return NULL;
}

static void fill(blk_t *b) { memset(b->p, b->pat, b->size); }
static bool intact(blk_t *b) {
    const uint8_t *d = b->p;
    for (size_t i = 0; i < b->size; i++) if (d[i] != b->pat) return false;
    return true;
}

static void drop(int slot);

static long long n_parked, n_unparked;
static long long n_self_lock;
static void dtor_cb(void *p) {
    blk_t *b = by_ptr(p);
    n_dtor++;
    if (!b) { vf_fail("C10/dtor-unknown-block", "seed=%llu op=%d dtor called with %p which is no live block (%s)", seq_seed, op_idx, p, cur_ctx); return; }
    if (!b->has_dtor) vf_fail("C10/dtor-on-block-without-dtor", "seed=%llu op=%d", seq_seed, op_idx);
    if (b->refs != 0) vf_fail("C10/dtor-while-referenced", "seed=%llu op=%d block size=%zu still has %d model refs (%s)", seq_seed, op_idx, b->size, b->refs, cur_ctx);
    if (b->dtor_runs++) vf_fail("C10/dtor-twice", "seed=%llu op=%d block size=%zu", seq_seed, op_idx, b->size);
    if (b->freed) vf_fail("C10/dtor-after-free", "seed=%llu op=%d memory was handed back before the destructor ran", seq_seed, op_idx);
    if (!intact(b)) vf_fail("C10/dtor-on-corrupt-block", "seed=%llu op=%d block content changed before destructor", seq_seed, op_idx);
    if (m_mem_size(p) != b->size) vf_fail("C10/size-mismatch", "seed=%llu in dtor: m_mem_size=%zu requested=%zu", seq_seed, m_mem_size(p), b->size);
    /* a destructor may hold a reference on the block it destroys while it works (the library's own lock idiom): the pair is
     * balanced, so this is still the one and only destruction */
    if (b->tag % 3 == 0) {
        n_self_lock++;
        if (m_mem_ref(p) != p) vf_fail("C10/ref-return", "m_mem_ref inside the destructor returned another pointer");
        if (m_mem_size(p) != b->size) vf_fail("C10/size-mismatch", "seed=%llu in dtor (referenced again): m_mem_size=%zu requested=%zu", seq_seed, m_mem_size(p), b->size);
        m_mem_unref(p);
        if (b->freed) { vf_fail("C10/freed-inside-dtor", "seed=%llu op=%d block size=%zu was handed back to the allocator while its destructor was still running (balanced ref/unref inside it)", seq_seed, op_idx, b->size); return; }
    }
    /* a destructor may also keep the block for itself (park it in a cache): it then stays alive, un-destroyed-again, until
     * that reference is dropped too */
    if (b->tag % 5 == 0 && !b->parked) {
        m_mem_ref(p);
        b->parked = true; b->refs = 1;
        n_parked++;
    }
    /* nested: release the references this block owns */
    for (int i = 0; i < b->nch; i++) {
        n_nested++;
        drop(b->children[i]);
    }
    b->nch = 0;
}

/* two interchangeable allocators over the accounting table: the harness switches the configured one between sequences
 * (when no block is alive) and checks that every block is taken from, and handed back to, the allocator configured then */
static int cur_alloc;                  /* 0 = A, 1 = B: the allocator configured through m_set_memhook */
static int in_alloc_of = -1, in_free_of = -1;
static long long n_alloc_by[2], n_free_by[2], n_switches;
static void *a_malloc(size_t n) { void *q = vf_malloc(n); in_alloc_of = 0; if (q) n_alloc_by[0]++; return q; }
static void *a_calloc(size_t a, size_t b) { void *q = vf_calloc(a, b); in_alloc_of = 0; if (q) n_alloc_by[0]++; return q; }
static void a_free(void *q) { if (q) { n_free_by[0]++; in_free_of = 0; } vf_free(q); }
static void *b_malloc(size_t n) { void *q = vf_malloc(n); in_alloc_of = 1; if (q) n_alloc_by[1]++; return q; }
static void *b_calloc(size_t a, size_t b) { void *q = vf_calloc(a, b); in_alloc_of = 1; if (q) n_alloc_by[1]++; return q; }
static void b_free(void *q) { if (q) { n_free_by[1]++; in_free_of = 1; } vf_free(q); }
static void configure_allocator(int which) {
    int r = which ? m_set_memhook(b_malloc, b_calloc, b_free) : m_set_memhook(a_malloc, a_calloc, a_free);
    if (r != 0) { printf("FAIL HARNESS/memhook | m_set_memhook failed\n"); exit(2); }
    if (which != cur_alloc) n_switches++;
    cur_alloc = which;
}

static void on_free(void *p, int tag, size_t asize) {
    (void)p; (void)asize;
    if (tag <= 0) return;
    blk_t *b = by_tag(tag);
    if (b && in_free_of != b->alloc_by) vf_fail("C10/returned-to-other-allocator", "seed=%llu op=%d block size=%zu taken from allocator %c was handed to the free() of allocator %c", seq_seed, op_idx, b->size, 'A' + b->alloc_by, 'A' + in_free_of);
    n_free_seen++;
    if (!b) { vf_fail("C10/free-of-retired-block", "seed=%llu op=%d allocation of an already released block freed again tag=%d", seq_seed, op_idx, tag); return; }
    if (b->refs != 0) vf_fail("C10/freed-while-referenced", "seed=%llu op=%d block size=%zu freed with %d references outstanding (%s)", seq_seed, op_idx, b->size, b->refs, cur_ctx);
    if (b->has_dtor && b->dtor_runs != 1) vf_fail("C10/freed-before-dtor", "seed=%llu op=%d block size=%zu freed, destructor ran %d times", seq_seed, op_idx, b->size, b->dtor_runs);
    if (b->freed) vf_fail("C10/double-free", "seed=%llu op=%d", seq_seed, op_idx);
    b->freed = true;
}

/* model + real: drop one reference of slot */
/* the last reference the harness knew of is gone: the destructor has run (once); the block is back with the allocator unless
 * the destructor kept it */
static void settle_last(blk_t *b, size_t size) {
    if (b->has_dtor && b->dtor_runs != 1) vf_fail("C10/dtor-not-run-at-last-unref", "seed=%llu op=%d size=%zu runs=%d", seq_seed, op_idx, size, b->dtor_runs);
    if (b->parked && b->refs == 1) {
        if (b->freed) vf_fail("C10/freed-while-referenced", "seed=%llu op=%d block size=%zu: its destructor kept a reference on it, yet the allocation was handed back", seq_seed, op_idx, size);
        return;
    }
    if (b->parked) n_unparked++;
    if (!b->freed) vf_fail("C10/not-freed-at-last-unref", "seed=%llu op=%d size=%zu: allocation not returned to the configured allocator", seq_seed, op_idx, size);
    memset(b, 0, sizeof(*b));
}

static void drop(int slot) {
    blk_t *b = &B[slot];
    if (!b->p || b->refs <= 0) { vf_fail("HARNESS/drop", "bad drop"); return; }
    void *p = b->p;
    b->refs--;
    bool last = b->refs == 0;
    n_unref++;
    void *r = m_mem_unref(p);
    if (r != NULL) vf_fail("C10/unref-return", "m_mem_unref returned %p, expected NULL", r);
    if (last) {
        settle_last(b, b->size);
    } else {
        if (b->dtor_runs && !b->parked) vf_fail("C10/dtor-before-last-unref", "seed=%llu op=%d", seq_seed, op_idx);
        if (b->freed) vf_fail("C10/freed-before-last-unref", "seed=%llu op=%d", seq_seed, op_idx);
    }
}

static int new_block(size_t size, bool with_dtor) {
    int slot = -1;
    for (int i = 0; i < MAXB; i++) if (!B[i].p) { slot = i; break; }
    if (slot < 0) return -1;
    blk_t *b = &B[slot];
    memset(b, 0, sizeof(*b));
    b->tag = next_tag++;
    vf_alloc_tag = b->tag;
    uint64_t before = vf_alloc_seq;
    in_alloc_of = -1;
    void *p = m_mem_new(size, with_dtor ? dtor_cb : NULL);
    vf_alloc_tag = 0;
    b->alloc_by = cur_alloc;
    if (p && in_alloc_of != cur_alloc) vf_fail("C10/not-from-configured-allocator", "seed=%llu op=%d m_mem_new(%zu) took its memory from allocator %c while %c is the configured one", seq_seed, op_idx, size, in_alloc_of < 0 ? '?' : 'A' + in_alloc_of, 'A' + cur_alloc);
    n_new++;
    if (!p) { vf_fail("C10/new-null", "m_mem_new(%zu) returned NULL", size); return -1; }
    if (vf_alloc_seq != before + 1) vf_fail("C10/new-allocations", "m_mem_new(%zu) made %llu allocator calls, expected 1", size, (unsigned long long)(vf_alloc_seq - before));
    if ((uintptr_t)p % alignof(max_align_t) != 0) {
        n_misaligned++;
        vf_fail("C10/misaligned", "m_mem_new(%zu) returned %p: not aligned to alignof(max_align_t)=%zu (size %% 16 = %zu)", size, p, alignof(max_align_t), size % 16);
    }
    b->p = p; b->size = size; b->refs = 1; b->has_dtor = with_dtor;
    b->pat = (uint8_t)(0xA0 + (b->tag & 0x3f));
    if (m_mem_size(p) != size) vf_fail("C10/size-mismatch", "m_mem_size=%zu requested=%zu", m_mem_size(p), size);
    /* freshly created block must be zero-or-anything, but writable over its whole size */
    fill(b);
    if (m_mem_size(p) != size) vf_fail("C10/size-mismatch", "after fill m_mem_size=%zu requested=%zu", m_mem_size(p), size);
    return slot;
}

static void check_all(void) {
    for (int i = 0; i < MAXB; i++) {
        blk_t *b = &B[i];
        if (!b->p) continue;
        if (b->freed || (b->dtor_runs && !b->parked)) vf_fail("C10/live-block-destroyed", "seed=%llu op=%d slot=%d refs=%d", seq_seed, op_idx, i, b->refs);
        if (!intact(b)) vf_fail("C10/live-block-corrupt", "seed=%llu op=%d slot=%d size=%zu content changed while referenced", seq_seed, op_idx, i, b->size);
        if (m_mem_size(b->p) != b->size) vf_fail("C10/size-mismatch", "seed=%llu op=%d m_mem_size=%zu requested=%zu", seq_seed, op_idx, m_mem_size(b->p), b->size);
    }
}

static size_t pick_size(vf_rng *r) {
    switch (vf_below(r, 6)) {
    case 0: return vf_below(r, 33);
    case 1: return vf_below(r, 257);
    case 2: return vf_below(r, 4097);
    case 3: { long v = 16L * vf_below(r, 64) + (long)vf_below(r, 5) - 2; return v < 0 ? 0 : (size_t)v; }
    case 4: return vf_chance(r, 1, 6) ? vf_below(r, 65537) : vf_below(r, 600);
    default: return (size_t[]){0, 1, 7, 8, 9, 15, 16, 17, 24, 31, 32, 40, 63, 64, 4095, 4096}[vf_below(r, 16)];
    }
}

/* does a own (transitively) b?  avoid reference cycles, which never reach zero */
static bool owns(int a, int b) {
    if (a == b) return true;
    for (int i = 0; i < B[a].nch; i++) if (owns(B[a].children[i], b)) return true;
    return false;
}

static void run_sequence(uint64_t seed, int maxops, bool sample) {
    vf_rng r = { seed };
    seq_seed = seed;
    sig = 0;
    uint64_t live0 = vf_live();
    int nops = 1 + vf_below(&r, maxops);
    char line[512]; int ll = 0; line[0] = 0;
    bool saw_nested = false, saw_multi = false;
    for (op_idx = 0; op_idx < nops; op_idx++) {
        int op = vf_below(&r, 100);
        int slot = vf_below(&r, MAXB);
        int live[MAXB], nl = 0;
        for (int i = 0; i < MAXB; i++) if (B[i].p) live[nl++] = i;
        if (op < 22 || nl == 0) {
            size_t sz = pick_size(&r);
            bool d = vf_chance(&r, 2, 3);
            cur_ctx = "new";
            slot = new_block(sz, d);
            sig = vf_mix(sig, 1 + (sz % 16) * 4 + d);
            if (sample && ll < 440) ll += snprintf(line + ll, sizeof(line) - ll, "new(%zu,%s)->b%d ", sz, d ? "dtor" : "-", slot);
        } else if (op < 45) {
            slot = live[vf_below(&r, nl)];
            cur_ctx = "ref";
            void *q = m_mem_ref(B[slot].p);
            if (q != B[slot].p) vf_fail("C10/ref-return", "m_mem_ref returned %p for %p", q, B[slot].p);
            B[slot].refs++;
            n_ref++;
            if (B[slot].refs > 1) saw_multi = true;
            sig = vf_mix(sig, 100 + B[slot].refs);
            if (sample && ll < 440) ll += snprintf(line + ll, sizeof(line) - ll, "ref(b%d)=%d ", slot, B[slot].refs);
        } else if (op < 80) {
            slot = live[vf_below(&r, nl)];
            /* only drop references the *user* owns: refs held by parents are dropped by their dtor */
            int owned_by_parents = 0;
            for (int i = 0; i < MAXB; i++) if (B[i].p) for (int c = 0; c < B[i].nch; c++) if (B[i].children[c] == slot) owned_by_parents++;
            if (B[slot].refs - owned_by_parents <= 0) continue;
            cur_ctx = "unref";
            if (sample && ll < 440) ll += snprintf(line + ll, sizeof(line) - ll, "unref(b%d)=%d%s ", slot, B[slot].refs - 1, B[slot].nch ? "+nested" : "");
            sig = vf_mix(sig, 200 + B[slot].refs + 16 * B[slot].nch);
            if (B[slot].refs == 1 && B[slot].nch) saw_nested = true;
            if (vf_chance(&r, 1, 3)) {
                /* unrefp variant: must null the caller's pointer */
                void *tmp = B[slot].p;
                B[slot].refs--;
                bool last = B[slot].refs == 0;
                blk_t copy = B[slot];
                n_unref++;
                m_mem_unrefp(&tmp);
                if (tmp != NULL) vf_fail("C10/unrefp-not-nulled", "m_mem_unrefp left %p", tmp);
                if (last) settle_last(&B[slot], copy.size);
            } else {
                drop(slot);
            }
        } else if (op < 90) {
            /* make `a` own one reference of `b` (a has a dtor), if that creates no cycle */
            int a = live[vf_below(&r, nl)], b = live[vf_below(&r, nl)];
            if (a == b || !B[a].has_dtor || B[a].nch >= MAXCH || owns(b, a)) continue;
            m_mem_ref(B[b].p);
            B[b].refs++;
            n_ref++;
            B[a].children[B[a].nch++] = b;
            sig = vf_mix(sig, 300 + B[a].nch);
            if (sample && ll < 440) ll += snprintf(line + ll, sizeof(line) - ll, "own(b%d->b%d) ", a, b);
        } else if (op < 95) {
            /* NULL tolerance */
            void *n = NULL;
            if (m_mem_ref(NULL) != NULL) vf_fail("C10/null-ref", "m_mem_ref(NULL) != NULL");
            if (m_mem_unref(NULL) != NULL) vf_fail("C10/null-unref", "m_mem_unref(NULL) != NULL");
            m_mem_unrefp(NULL);
            m_mem_unrefp(&n);
            if (m_mem_size(NULL) != 0) vf_fail("C10/null-size", "m_mem_size(NULL) != 0");
            sig = vf_mix(sig, 400);
        } else {
            cur_ctx = "check";
            check_all();
            sig = vf_mix(sig, 500);
        }
    }
    check_all();
    /* release everything: user-owned references first in random order */
    for (int guard = 0; guard < 100000; guard++) {
        int live[MAXB], nl = 0;
        for (int i = 0; i < MAXB; i++) {
            if (!B[i].p) continue;
            int owned_by_parents = 0;
            for (int j = 0; j < MAXB; j++) if (B[j].p) for (int c = 0; c < B[j].nch; c++) if (B[j].children[c] == i) owned_by_parents++;
            if (B[i].refs - owned_by_parents > 0) live[nl++] = i;
        }
        if (!nl) break;
        int s = live[vf_below(&r, nl)];
        cur_ctx = "teardown";
        if (B[s].refs == 1 && B[s].nch) saw_nested = true;
        drop(s);
    }
    for (int i = 0; i < MAXB; i++) if (B[i].p) vf_fail("HARNESS/teardown", "slot %d still live (refs=%d)", i, B[i].refs);
    if (vf_live() != live0) {
        vf_live_since(0, 5);
        vf_fail("C10/leak", "seed=%llu: %zu allocations outstanding after every reference was dropped", seq_seed, vf_live() - live0);
    }
    sig = vf_mix(sig, saw_nested * 2 + saw_multi);
    if (saw_multi || saw_nested) vf_sig(sig);
    if (sample) printf("SAMPLE seed=%llu: %s...\n", (unsigned long long)seed, line);
}

int main(int argc, char **argv) {
    uint64_t seed = argc > 1 ? strtoull(argv[1], NULL, 0) : 1;
    int nseq = argc > 2 ? atoi(argv[2]) : 100;
    int maxops = argc > 3 ? atoi(argv[3]) : 200;
    int sweep = argc > 4 ? atoi(argv[4]) : 4096;
    setvbuf(stdout, NULL, _IOFBF, 1 << 16);
    vf_on_free = on_free;
    configure_allocator(0);

    /* exhaustive size sweep: every size 0..sweep, with and without destructor */
    long long swept = 0;
    for (int d = 0; d < 2 && sweep >= 0; d++) {
        for (int sz = 0; sz <= sweep; sz++) {
            seq_seed = 0; op_idx = sz;
            cur_ctx = "sweep";
            int s = new_block(sz, d);
            if (s < 0) continue;
            m_mem_ref(B[s].p); B[s].refs++;
            check_all();
            drop(s);
            check_all();
            drop(s);
            if (B[s].p && B[s].parked) drop(s);      /* the reference its destructor kept */
            swept++;
        }
    }
    if (vf_live() != 0) vf_fail("C10/leak", "sweep left %zu allocations", vf_live());
    /* sizes no allocation can hold: header + size overflows size_t */
    for (int k = 0; k < 64 && sweep >= 0; k++) {
        void *p = m_mem_new(SIZE_MAX - (size_t)k, NULL);
        if (p) { vf_fail("C10/impossible-size-accepted", "m_mem_new(SIZE_MAX - %d) returned a block (m_mem_size says %zu): the size computation wrapped around", k, m_mem_size(p)); break; }
    }
    vf_stat("impossible_sizes_probed", 64);
    vf_stat("sizes_swept", swept);

    for (int i = 0; i < nseq; i++) {
        /* quiescent point (nothing alive): re-configure the allocator for about every third sequence */
        if ((vf_mix(seed, i) % 3) == 0) configure_allocator(!cur_alloc);
        run_sequence(seed * 1000003ULL + i, maxops, i < 3);
    }
    vf_stat("allocator_switches", n_switches);
    vf_stat("destructors_locking_their_own_block", n_self_lock);
    vf_stat("blocks_kept_by_their_destructor", n_parked);
    vf_stat("kept_blocks_released_later", n_unparked);
    vf_stat("blocks_from_allocator_A", n_alloc_by[0]);
    vf_stat("blocks_from_allocator_B", n_alloc_by[1]);
    if (n_alloc_by[0] != n_free_by[0] || n_alloc_by[1] != n_free_by[1])
        vf_fail("C10/allocator-balance", "allocator A: %lld taken %lld returned; allocator B: %lld taken %lld returned", n_alloc_by[0], n_free_by[0], n_alloc_by[1], n_free_by[1]);
    vf_stat("sequences", nseq);
    vf_stat("blocks_created", n_new);
    vf_stat("refs_taken", n_ref);
    vf_stat("unrefs", n_unref);
    vf_stat("dtor_runs", n_dtor);
    vf_stat("nested_releases_inside_dtor", n_nested);
    vf_stat("allocator_frees_observed", n_free_seen);
    fflush(stdout);
    return vf_fail_count ? 1 : 0;
}

/* core_exec — dumb executor + tracer for scenarios over the public core API.
 * Reads a scenario (stdin or file), executes it against the library, writes a trace (stdout or file).
 * It takes no decisions and judges nothing: the oracles in vf/model_*.py do.
 *
 * usage: core_exec [scenario-file|-] [trace-file|-]
 */
#define _GNU_SOURCE
#include "vfh.h"
#include <fcntl.h>
#include <signal.h>
#include <dirent.h>
#include <time.h>
#include <sys/eventfd.h>
#include <sys/socket.h>
#include <sys/stat.h>
#include <sys/wait.h>
#include <sys/syscall.h>
#include <stdatomic.h>
#include <module/mod.h>
#include <module/ctx.h>
#include <module/mem/mem.h>

/* ------------------------------------------------------------------ real syscalls (bypass the ledger) */
int __real_close(int fd);
int __real_pipe(int fds[2]);
int __real_dup(int fd);
int __real_epoll_create1(int flags);
int __real_timerfd_create(int clockid, int flags);
int __real_signalfd(int fd, const sigset_t *mask, int flags);
int __real_inotify_init1(int flags);
int __real_eventfd(unsigned int initval, int flags);
long __real_syscall(long n, ...);

/* ------------------------------------------------------------------ trace */
static int trace_fd = 1;
static atomic_ullong trace_seq;
static uint64_t t0_us;
static uint64_t now_us(void) { struct timespec ts; clock_gettime(CLOCK_MONOTONIC, &ts); return (uint64_t)ts.tv_sec * 1000000ULL + ts.tv_nsec / 1000; }
#ifndef VF_TRACE_LIMIT
#define VF_TRACE_LIMIT 400000
#endif
static void tr(const char *fmt, ...) __attribute__((format(printf, 1, 2)));
static void tr(const char *fmt, ...) {
    char buf[1024];
    int n = snprintf(buf, sizeof(buf), "%llu ", (unsigned long long)(now_us() - t0_us));
    va_list ap; va_start(ap, fmt);
    n += vsnprintf(buf + n, sizeof(buf) - n - 2, fmt, ap);
    va_end(ap);
    if (n > (int)sizeof(buf) - 2) n = sizeof(buf) - 2;
    buf[n++] = '\n';
    ssize_t w = write(trace_fd, buf, n); (void)w;
    /* a run-away execution (e.g. a callback re-entering the loop for ever) keeps the progress watchdog quiet and would write
     * gigabytes: ten times the longest trace any scenario legitimately produces is treated like the watchdog firing */
    if (atomic_fetch_add(&trace_seq, 1) + 1 > VF_TRACE_LIMIT) {
        static const char m[] = "0 W trace-limit\n";
        w = write(trace_fd, m, sizeof(m) - 1); (void)w;
        _exit(3);
    }
}
static void die(const char *msg) { tr("! harness %s", msg); _exit(2); }
static void fail_hook(const char *key, const char *msg) { tr("A %s | %s", key, msg); }
static bool ctx_ever;
/* where watched directories / scratch files are made: the runner gives a directory of its own and removes it afterwards (a
 * scenario that crashes cannot clean up after itself) */
static const char *scratch_dir(void) { const char *d = getenv("VF_SCRATCH"); return (d && *d && strlen(d) < 90) ? d : "/tmp"; }

/* ------------------------------------------------------------------ scenario */
enum {
    OP_NONE, OP_CTX_REGISTER, OP_CTX_DEREGISTER, OP_CTX_LOOP, OP_CTX_DISPATCH, OP_CTX_DISPATCH_UNTIL, OP_CTX_QUIT, OP_CTX_FINALIZE,
    OP_CTX_TICK, OP_CTX_LEN, OP_CTX_NAME, OP_CTX_STATS, OP_CTX_FD, OP_CTX_USERDATA, OP_CTX_LOGGER, OP_CTX_DUMP,
    OP_REG, OP_DEREG, OP_START, OP_PAUSE, OP_RESUME, OP_STOP, OP_OBS_DROP, OP_TB, OP_BSIZE, OP_BTIMEOUT, OP_BECOME, OP_UNBECOME,
    OP_STASH, OP_UNSTASH, OP_TELL, OP_PUBLISH, OP_PILL, OP_SUB, OP_UNSUB,
    OP_FD_OPEN, OP_FD_WRITE, OP_FD_CLOSE, OP_FD_REG, OP_FD_DEREG, OP_TMR_REG, OP_TMR_DEREG, OP_SGN_REG, OP_SGN_DEREG, OP_RAISE,
    OP_PATH_REG, OP_PATH_DEREG, OP_TOUCH, OP_PID_REG, OP_PID_DEREG, OP_CHILD_SPAWN, OP_CHILD_KILL, OP_TASK_REG, OP_TASK_DEREG,
    OP_THRESH_REG, OP_THRESH_DEREG, OP_SRCLEN, OP_MSTATS, OP_LOOKUP, OP_EVT_RETAIN, OP_EVT_RELEASE, OP_EVT_CHECK, OP_MOD_REF, OP_MOD_UNREF,
    OP_SLEEP, OP_ERRNO, OP_QUIESCE, OP_MOD_LOG, OP_MOD_DUMP, OP_NAMEOF, OP_FD_HUP, OP_OBS_DROP_KEEP, OP_BIND, OP_SIG_UNMASK, OP_FAULT, OP_RMPATH, OP_MAX
};
static const char *opnames[OP_MAX] = {
    "none", "ctx_register", "ctx_deregister", "ctx_loop", "ctx_dispatch", "ctx_dispatch_until", "ctx_quit", "ctx_finalize",
    "ctx_tick", "ctx_len", "ctx_name", "ctx_stats", "ctx_fd", "ctx_userdata", "ctx_logger", "ctx_dump",
    "reg", "dereg", "start", "pause", "resume", "stop", "obs_drop", "tb", "bsize", "btimeout", "become", "unbecome",
    "stash", "unstash", "tell", "publish", "pill", "sub", "unsub",
    "fd_open", "fd_write", "fd_close", "fd_reg", "fd_dereg", "tmr_reg", "tmr_dereg", "sgn_reg", "sgn_dereg", "raise",
    "path_reg", "path_dereg", "touch", "pid_reg", "pid_dereg", "child_spawn", "child_kill", "task_reg", "task_dereg",
    "thresh_reg", "thresh_dereg", "srclen", "mstats", "lookup", "evt_retain", "evt_release", "evt_check", "mod_ref", "mod_unref",
    "sleep", "errno", "quiesce", "mod_log", "mod_dump", "nameof", "fd_hup", "obs_drop_keep_handle", "bind", "sig_unmask", "fault", "rmpath",
};

typedef struct { int op; long long a[6]; int na; } op_t;
typedef struct { int nops; op_t *ops; int ret; int err; } script_t;

#define MAXSLOT 40
#define MAXINV 256
enum { K_EVAL, K_START, K_STOP, K_EVT, K_N };
static const char *kindnames[K_N] = { "eval", "start", "stop", "evt" };
typedef struct { script_t *by_n[MAXINV]; script_t *dflt; } cbs_t;

typedef struct { int magic; int slot; } mud_t;
typedef struct {
    char name[40]; unsigned flags; int hooks; bool declared;
    m_mod_t *handle, *obs;
    mud_t *ud; mud_t ud_static;
    char *name_given;
    int inv[K_N];
    cbs_t cbs[K_N];
    int extra_refs;
} slot_t;
static slot_t SL[MAXSLOT];
static script_t main_script;

#define MAXTOPIC 64
static char *topics[MAXTOPIC]; static int ntopics;
#define MAXPATH 8
static char paths[MAXPATH][128]; static int npaths;
static char ctxnames[4][32] = { "ctxA", "ctxB", "", "ctxD" };

/* user descriptors */
#define MAXUFD 128
typedef struct { int rd, wr; int kind; bool open; long written, drained; bool nodrain; bool rd_closed, wr_closed; } ufd_t;
static ufd_t UFD[MAXUFD];
/* children */
static pid_t children[8];

/* payloads */
#define MAXPAY 200000
static int PAYSTATIC[65536];
typedef struct { void *p; int id; int frees; } apay_t;
#define MAXAPAY 30000
static apay_t AP[MAXAPAY]; static int nap;
#define TAG_PAY_BASE 100000
#define TAG_UD_BASE  300000
#define TAG_NAME_BASE 500000
#define TAG_MUD_BASE 500100
#define TAG_CTXUD 500200
#define TAG_CTXNAME 500201

/* retained events */
typedef struct { m_evt_t *e; m_evt_t copy; int type; long long key; int data; bool live; } ret_t;
static ret_t RET[256]; static int nret;

/* current batch per nesting depth */
#define MAXDEPTH 24
#define SCRIPT_DEPTH 10     /* callbacks nested deeper than this are traced but run no script ops (bounds re-entrancy) */
static const m_evt_t *cur_evts[MAXDEPTH][128]; static int cur_nevts[MAXDEPTH];
static int cur_slot[MAXDEPTH]; static int depth;   /* callback nesting depth; 0 = outside callbacks */
static atomic_int in_blocking;
static unsigned long long call_id, cur_call;

/* ------------------------------------------------------------------ descriptor ledger */
#define MAXFD 4096
enum { FD_NONE, FD_LIB, FD_USER };
typedef struct { uint8_t owner; uint8_t kind; bool open; int uidx; } fdl_t;
static fdl_t FDL[MAXFD];
static bool baseline_fd[MAXFD];
static const char *fdkinds[] = { "?", "pipe", "dup", "epoll", "timerfd", "signalfd", "inotify", "eventfd", "pidfd" };
static __thread int in_harness_io;    /* harness's own descriptor operations are not judged */
static void led_open(int fd, int kind) {
    if (fd >= 0 && fd < MAXFD) {
        FDL[fd].owner = FD_LIB; FDL[fd].kind = kind; FDL[fd].open = true; FDL[fd].uidx = -1;
        tr("O %s %d", fdkinds[kind], fd);
    }
}
int __wrap_close(int fd) {
    if (fd >= 0 && fd < MAXFD) {
        fdl_t *f = &FDL[fd];
        const char *cls = !f->open ? "notopen" : f->owner == FD_LIB ? "lib" : f->owner == FD_USER ? "user" : "unknown";
        tr("X close %d %s %s %d", fd, cls, fdkinds[f->kind], f->uidx);
        if (f->open) {
            f->open = false;
            if (f->owner == FD_USER && f->uidx >= 0 && f->uidx < MAXUFD) {
                /* library closed a user descriptor (auto-close): the harness must not touch that number again */
                ufd_t *u = &UFD[f->uidx];
                if (u->rd == fd) u->rd_closed = true;
                if (u->wr == fd) u->wr_closed = true;
            }
        }
    } else tr("X close %d range ? -1", fd);
    return __real_close(fd);
}
int __wrap_pipe(int fds[2]) { int r = __real_pipe(fds); if (r == 0) { led_open(fds[0], 1); led_open(fds[1], 1); } return r; }
int __wrap_dup(int fd) { int r = __real_dup(fd); if (r >= 0) led_open(r, 2); return r; }
int __wrap_epoll_create1(int fl) { int r = __real_epoll_create1(fl); if (r >= 0) led_open(r, 3); return r; }
int __wrap_timerfd_create(int c, int fl) { int r = __real_timerfd_create(c, fl); if (r >= 0) led_open(r, 4); return r; }
int __wrap_signalfd(int fd, const sigset_t *m, int fl) { int r = __real_signalfd(fd, m, fl); if (r >= 0) led_open(r, 5); return r; }
int __wrap_inotify_init1(int fl) { int r = __real_inotify_init1(fl); if (r >= 0) led_open(r, 6); return r; }
int __wrap_eventfd(unsigned int v, int fl) { int r = __real_eventfd(v, fl); if (r >= 0) led_open(r, 7); return r; }
long __wrap_syscall(long n, ...) {
    va_list ap; va_start(ap, n);
    long a = va_arg(ap, long), b = va_arg(ap, long), c = va_arg(ap, long), d = va_arg(ap, long), e = va_arg(ap, long), f = va_arg(ap, long);
    va_end(ap);
    long r = __real_syscall(n, a, b, c, d, e, f);
#ifdef __NR_pidfd_open
    if (n == __NR_pidfd_open && r >= 0) led_open((int)r, 8);
#endif
    return r;
}
static void user_fd_opened(int fd, int uidx) { if (fd >= 0 && fd < MAXFD) { FDL[fd].owner = FD_USER; FDL[fd].open = true; FDL[fd].uidx = uidx; FDL[fd].kind = 0; } }
static void user_fd_closed(int fd) { if (fd >= 0 && fd < MAXFD) FDL[fd].open = false; }

static void snapshot_fds(bool *set) {
    memset(set, 0, MAXFD);
    DIR *d = opendir("/proc/self/fd");
    if (!d) return;
    int dfd = dirfd(d);
    struct dirent *e;
    while ((e = readdir(d))) { if (e->d_name[0] == '.') continue; int fd = atoi(e->d_name); if (fd != dfd && fd >= 0 && fd < MAXFD) set[fd] = true; }
    closedir(d);
}

/* ------------------------------------------------------------------ allocator observer */
static void on_free(void *p, int tag, size_t size) {
    (void)size;
    if (tag >= TAG_PAY_BASE && tag < TAG_UD_BASE) {
        int id = tag;
        for (int i = 0; i < nap; i++) if (AP[i].p == p && AP[i].id == id) { AP[i].frees++; break; }
        tr("F pay %d", id);
    } else if (tag >= TAG_UD_BASE && tag < TAG_NAME_BASE) tr("F ud %d", tag - TAG_UD_BASE);
    else if (tag >= TAG_NAME_BASE && tag < TAG_MUD_BASE) tr("F name %d", tag - TAG_NAME_BASE);
    else if (tag >= TAG_MUD_BASE && tag < TAG_CTXUD) tr("F mud %d", tag - TAG_MUD_BASE);
    else if (tag == TAG_CTXUD) tr("F ctxud 0");
    else if (tag == TAG_CTXNAME) tr("F ctxname 0");
}
static void *tagged_alloc(size_t n, int tag) {
#ifndef VF_NO_LEDGER
    int old = vf_alloc_tag; vf_alloc_tag = tag; void *p = vf_malloc(n); vf_alloc_tag = old; return p;
#else
    (void)tag; return malloc(n);
#endif
}

/* ------------------------------------------------------------------ observation */
static char last_state[600];
static char st_letter(m_mod_states s) {
    switch (s) { case M_MOD_IDLE: return 'I'; case M_MOD_RUNNING: return 'R'; case M_MOD_PAUSED: return 'P'; case M_MOD_STOPPED: return 'S'; case M_MOD_ZOMBIE: return 'Z'; default: return '?'; }
}
static void observe(void) {
    char buf[600]; int n = 0;
    int saved = errno;
    for (int i = 0; i < MAXSLOT; i++) {
        slot_t *s = &SL[i];
        if (!s->obs) continue;
        m_mod_states st = m_mod_state(s->obs);
        long sl = (st == M_MOD_ZOMBIE) ? -1 : (long)m_mod_src_len(s->obs, M_SRC_TYPE_END);
        n += snprintf(buf + n, sizeof(buf) - n, "%d:%c:%ld ", i, st_letter(st), sl);
    }
    if (!ctx_ever) { errno = saved; return; }     /* before the first registration the library has no thread key yet */
    m_ctx_stats_t cs;
    int r = m_ctx_stats(&cs);
    const char *cn = m_ctx_name();
    long len = (long)m_ctx_len();
    if (r == 0) n += snprintf(buf + n, sizeof(buf) - n, "| loop=1 run=%zu nmods=%ld ctx=%d", cs.running_modules, len, cn != NULL);
    else n += snprintf(buf + n, sizeof(buf) - n, "| loop=%s run=? nmods=%ld ctx=%d", r == -EINVAL ? "0" : "?", len, cn != NULL);
    if (strcmp(buf, last_state) != 0) { strcpy(last_state, buf); tr("S %s", buf); }
    errno = saved;
}

/* ------------------------------------------------------------------ helpers */
static int slot_of_mod(const m_mod_t *m) {
    if (!m) return -1;
    for (int i = 0; i < MAXSLOT; i++) if (SL[i].obs == m || SL[i].handle == m) return i;
    return -2;
}
static int payload_id(const void *p) {
    if (!p) return 0;
    if ((const int *)p >= PAYSTATIC && (const int *)p < PAYSTATIC + 65536) return (int)((const int *)p - PAYSTATIC);
    for (int i = nap - 1; i >= 0; i--) if (AP[i].p == p && AP[i].frees == 0) return AP[i].id;
    return -1;
}
static const void *ud_ptr(long long token, long long flags) {
    if (token == 0) return NULL;
    if (flags & M_SRC_AUTOFREE) { int *b = tagged_alloc(16, TAG_UD_BASE + (int)token); b[0] = (int)token; return b; }
    return (const void *)(uintptr_t)(0x50000000ULL + (uint64_t)token * 16);
}
static long long ud_token(const void *p) {
    if (!p) return 0;
    uintptr_t v = (uintptr_t)p;
    if (v >= 0x50000000ULL && v < 0x50000000ULL + 16ULL * 1000000) return (long long)((v - 0x50000000ULL) / 16);
#ifndef VF_NO_LEDGER
    if (vf_is_live((void *)p)) return ((const int *)p)[0];
#endif
    return -1;
}
static int topic_idx(const char *t) {
    if (!t) return -1;
    for (int i = 0; i < ntopics; i++) if (topics[i] == t) return i;
    for (int i = 0; i < ntopics; i++) if (strcmp(topics[i], t) == 0) return 1000 + i;   /* equal text, other pointer */
    return -2;
}
static int ufd_of(int fd) { for (int i = 0; i < MAXUFD; i++) if (UFD[i].open && !UFD[i].rd_closed && UFD[i].rd == fd) return i; return -1; }

static void null_logger(const m_mod_t *ref, const char *fmt, va_list args) { (void)ref; (void)fmt; (void)args; }

static int task_fn(void *arg);
typedef struct { int sleep_us; int retval; atomic_int runs; } taskarg_t;
static taskarg_t TASKS[64];

static void run_ops(script_t *s);

/* ------------------------------------------------------------------ callbacks */
static int resolve_self(const m_mod_t *self) {
    const mud_t *u = m_mod_userdata(self);
    if (u && u->magic == 0x4d55) return u->slot;
    return slot_of_mod(self);
}
static script_t *pick_script(slot_t *s, int kind) {
    int n = s->inv[kind]++;
    script_t *sc = (n < MAXINV && s->cbs[kind].by_n[n]) ? s->cbs[kind].by_n[n] : s->cbs[kind].dflt;
    return sc;
}
static bool generic_cb(m_mod_t *self, int kind) {
    int si = resolve_self(self);
    if (si < 0) { tr("! callback for unknown module %p kind=%s", (void *)self, kindnames[kind]); return true; }
    slot_t *s = &SL[si];
    int n = s->inv[kind];
    script_t *sc = pick_script(s, kind);
    if (depth + 1 >= MAXDEPTH) { tr("! nesting too deep"); return sc ? sc->ret : true; }
    depth++; cur_slot[depth] = si; cur_nevts[depth] = 0;
    tr("B %d %s %d -1 %d", si, kindnames[kind], n, depth);
    observe();
    if (sc && depth <= SCRIPT_DEPTH) run_ops(sc);
    int ret = sc ? sc->ret : 1;
    observe();
    tr("E %d %s %d %d", si, kindnames[kind], n, ret);
    depth--;
    if (sc && sc->err >= 0) errno = sc->err;
    return ret != 0;
}
static bool cb_eval(m_mod_t *self) { return generic_cb(self, K_EVAL); }
static bool cb_start(m_mod_t *self) { return generic_cb(self, K_START); }
static void cb_stop(m_mod_t *self) { generic_cb(self, K_STOP); }

static void log_event(int si, int n, int i, const m_evt_t *e) {
    char d[300];
    long long tok = ud_token(e->userdata);
    switch (e->type) {
    case M_SRC_TYPE_PS: {
        const m_evt_ps_t *p = e->ps_evt;
        int ti = topic_idx(p->topic);
        snprintf(d, sizeof(d), "ps sys=%d sender=%d topic=%d:%s data=%d", p->system, slot_of_mod(p->sender), ti, p->topic ? p->topic : "-", payload_id(p->data));
        if (p->data && !p->system) { int pid = payload_id(p->data); if (pid > 0) { volatile int v = *(const int *)p->data; if (v != pid) tr("! payload %d content %d", pid, v); } }
        break; }
    case M_SRC_TYPE_FD: {
        int fd = e->fd_evt->fd; int u = ufd_of(fd);
        snprintf(d, sizeof(d), "fd idx=%d raw=%d", u, fd);
        if (u >= 0 && !UFD[u].nodrain && UFD[u].kind != 3) {
            in_harness_io++;
            if (UFD[u].kind == 1) { uint64_t v; if (read(UFD[u].rd, &v, 8) == 8) UFD[u].drained += (long)v; }
            else { char c; if (read(UFD[u].rd, &c, 1) == 1) UFD[u].drained++; }
            in_harness_io--;
        }
        break; }
    case M_SRC_TYPE_TMR: snprintf(d, sizeof(d), "tmr ns=%llu", (unsigned long long)e->tmr_evt->ns); break;
    case M_SRC_TYPE_SGN: snprintf(d, sizeof(d), "sgn signo=%u", e->sgn_evt->signo); break;
    case M_SRC_TYPE_PATH: { int pi = -1; for (int k = 0; k < npaths; k++) if (e->path_evt->path && strcmp(paths[k], e->path_evt->path) == 0) pi = k; snprintf(d, sizeof(d), "path idx=%d events=%u", pi, e->path_evt->events); break; }
    case M_SRC_TYPE_PID: { int ci = -1; for (int k = 0; k < 8; k++) if (children[k] == e->pid_evt->pid) ci = k; snprintf(d, sizeof(d), "pid idx=%d", ci); break; }
    case M_SRC_TYPE_TASK: snprintf(d, sizeof(d), "task tid=%u ret=%d", e->task_evt->tid, e->task_evt->retval); break;
    case M_SRC_TYPE_THRESH: snprintf(d, sizeof(d), "thresh inactive=%llu freq=%f", (unsigned long long)e->thresh_evt->inactive_ms, e->thresh_evt->activity_freq); break;
    default: snprintf(d, sizeof(d), "unknown type=%d", e->type); break;
    }
    tr("V %d %d %d %s ud=%lld ts=%llu", si, n, i, d, tok, (unsigned long long)e->ts);
}

static void evt_common(m_mod_t *self, const m_queue_t *const evts, int hidx) {
    int si = resolve_self(self);
    if (si < 0) { tr("! evt callback for unknown module"); return; }
    slot_t *s = &SL[si];
    int n = s->inv[K_EVT];
    script_t *sc = pick_script(s, K_EVT);
    if (depth + 1 >= MAXDEPTH) { tr("! nesting too deep"); return; }
    depth++; cur_slot[depth] = si; cur_nevts[depth] = 0;
    tr("B %d evt %d %d %d", si, n, hidx, depth);
    observe();
    int i = 0;
    for (m_queue_itr_t *it = m_queue_itr_new(evts); it; m_queue_itr_next(&it)) {
        const m_evt_t *e = m_queue_itr_get_data(it);
        if (i < 128) cur_evts[depth][i] = e;
        log_event(si, n, i, e);
        i++;
    }
    cur_nevts[depth] = i < 128 ? i : 128;
    if (sc && depth <= SCRIPT_DEPTH) run_ops(sc);
    observe();
    tr("E %d evt %d 0", si, n);
    depth--;
    if (sc && sc->err >= 0) errno = sc->err;
}
static void h0(m_mod_t *m, const m_queue_t *const q) { evt_common(m, q, 0); }
static void h1(m_mod_t *m, const m_queue_t *const q) { evt_common(m, q, 1); }
static void h2(m_mod_t *m, const m_queue_t *const q) { evt_common(m, q, 2); }
static void h3(m_mod_t *m, const m_queue_t *const q) { evt_common(m, q, 3); }
static m_evt_cb handlers[4] = { h0, h1, h2, h3 };

static int task_fn(void *arg) {
    taskarg_t *t = arg;
    if (t < TASKS || t >= TASKS + 64) return -999;
    if (t->sleep_us) { struct timespec ts = { t->sleep_us / 1000000, (t->sleep_us % 1000000) * 1000L }; nanosleep(&ts, NULL); }
    atomic_fetch_add(&t->runs, 1);
    return t->retval;
}

/* ------------------------------------------------------------------ op execution */
static int SELF(long long a) { if (a == -1) return depth > 0 ? cur_slot[depth] : 0; return (int)a; }
static m_mod_t *H(long long a) { int i = SELF(a); if (i < 0 || i >= MAXSLOT) return NULL; return SL[i].handle ? SL[i].handle : SL[i].obs; }
/* H(): a zombie/deregistered slot keeps being addressed through the observation reference (a live reference the
 * harness owns), so that "call on a ZOMBIE" is exercised; NULL only if the slot never registered or obs dropped. */

static void quiesce(void) {
    bool now[MAXFD];
    snapshot_fds(now);
    char buf[700]; int n = 0;
    for (int fd = 0; fd < MAXFD && n < 600; fd++) {
        if (now[fd] && !baseline_fd[fd]) {
            bool user = false;
            for (int i = 0; i < MAXUFD; i++) if (UFD[i].open && (UFD[i].rd == fd || UFD[i].wr == fd)) user = true;
            if (!user) n += snprintf(buf + n, sizeof(buf) - n, "%d:%s ", fd, FDL[fd].owner == FD_LIB ? fdkinds[FDL[fd].kind] : "?");
        }
    }
    buf[n] = 0;
    int userclosed = 0;
    for (int i = 0; i < MAXUFD; i++) if (UFD[i].open && UFD[i].rd >= 0 && !now[UFD[i].rd]) userclosed++;
#ifndef VF_NO_LEDGER
    tr("Q live=%zu userfd_missing=%d fds=%s", vf_live(), userclosed, buf);
    if (vf_live()) vf_live_since(0, 0);
    for (size_t i = 0, k = 0; i < vf_tab_cap && k < 6; i++) if (vf_tab[i].p) { tr("Q leak size=%zu tag=%d seq=%llu", vf_tab[i].size, vf_tab[i].tag, (unsigned long long)vf_tab[i].seq); k++; }
#else
    tr("Q live=-1 userfd_missing=%d fds=%s", userclosed, buf);
#endif
}

static long long do_op(op_t *o) {
    long long *a = o->a;
    long long ret = 0;
    switch (o->op) {
    case OP_CTX_REGISTER: {
        const char *nm = ctxnames[a[0] & 3];
        void *ud = NULL;
        if (a[1] & M_CTX_USERDATA_AUTOFREE) ud = tagged_alloc(8, TAG_CTXUD);
        if ((a[1] & M_CTX_NAME_AUTOFREE) && !(a[1] & M_CTX_NAME_DUP)) { char *c = tagged_alloc(32, TAG_CTXNAME); strcpy(c, nm); nm = c; }
        ret = m_ctx_register(nm, (m_ctx_flags)a[1], ud);
        if (ret == 0 || ret == -EEXIST) ctx_ever = true;
        if (ret == 0) m_ctx_set_logger(null_logger);
#ifndef VF_NO_LEDGER
        else { if (ud && vf_is_live(ud)) vf_free(ud); if (nm != ctxnames[a[0] & 3] && vf_is_live((void *)nm)) vf_free((void *)nm); }
#endif
        break; }
    case OP_CTX_DEREGISTER: ret = m_ctx_deregister(); break;
    case OP_CTX_LOOP: atomic_store(&in_blocking, 1); ret = m_ctx_loop(); atomic_store(&in_blocking, 0); break;
    case OP_CTX_DISPATCH: ret = m_ctx_dispatch(); break;
    case OP_CTX_QUIT: ret = m_ctx_quit((uint8_t)a[0]); break;
    case OP_CTX_FINALIZE: ret = m_ctx_finalize(); break;
    case OP_CTX_TICK: ret = m_ctx_set_tick((uint64_t)a[0]); break;
    case OP_CTX_LEN: ret = m_ctx_len(); break;
    case OP_CTX_NAME: ret = m_ctx_name() != NULL; break;
    case OP_CTX_USERDATA: ret = m_ctx_userdata() != NULL; break;
    case OP_CTX_STATS: { m_ctx_stats_t st; ret = m_ctx_stats(&st); break; }
    case OP_CTX_FD: { int fd = m_ctx_fd(); ret = fd >= 0 ? 0 : fd; if (fd >= 0) { FDL[fd].open = false; __real_close(fd); tr("X harness-closed-ctxfd %d", fd); } break; }
    case OP_CTX_LOGGER: ret = m_ctx_set_logger(null_logger); break;
    case OP_CTX_DUMP: ret = m_ctx_dump(); break;
    case OP_REG: {
        slot_t *s = &SL[SELF(a[0])];
        if (s->obs || s->handle) { ret = -1000; break; }      /* generator error: slot reuse */
        const char *nm = s->name;
        if ((s->flags & M_MOD_NAME_AUTOFREE) && !(s->flags & M_MOD_NAME_DUP)) { char *c = tagged_alloc(40, TAG_NAME_BASE + SELF(a[0])); strcpy(c, s->name); nm = c; s->name_given = c; }
        else if (o->na > 1 && (s->flags & M_MOD_NAME_DUP)) {
            /* "reg <slot> <via>": register under the name string of the module that currently holds this name (looked up
             * through module <via>), the way a program re-registering "the same name" does with m_mod_name(old) */
            m_mod_t *via = H(a[1]); m_mod_t *old = via ? m_mod_lookup(via, s->name) : NULL;
            if (old && m_mod_name(old)) nm = m_mod_name(old);
        }
        if (s->flags & M_MOD_USERDATA_AUTOFREE) s->ud = tagged_alloc(sizeof(mud_t), TAG_MUD_BASE + SELF(a[0])); else s->ud = &s->ud_static;
        s->ud->magic = 0x4d55; s->ud->slot = SELF(a[0]);
        m_mod_hook_t hk = { (s->hooks & 2) ? cb_start : NULL, (s->hooks & 1) ? cb_eval : NULL, h0, (s->hooks & 4) ? cb_stop : NULL };
        ret = m_mod_register(nm, &s->handle, &hk, (m_mod_flags)s->flags, s->ud);
        if (ret == 0 && s->handle) s->obs = m_mem_ref(s->handle);
        else {
#ifndef VF_NO_LEDGER
            /* rejected registration: ownership of autofree name/userdata stays with the caller unless the library freed them */
            if (s->name_given && vf_is_live(s->name_given)) vf_free(s->name_given);
            if ((s->flags & M_MOD_USERDATA_AUTOFREE) && vf_is_live(s->ud)) vf_free(s->ud);
#endif
            s->ud = NULL; s->name_given = NULL;
        }
        break; }
    case OP_DEREG: { slot_t *s = &SL[SELF(a[0])]; m_mod_t *tmp = s->handle ? s->handle : s->obs; bool own = s->handle != NULL;
        if (own) ret = m_mod_deregister(&s->handle); else { /* zombie addressed through obs: a failing call must leave the pointer */ m_mod_t *t2 = tmp; ret = m_mod_deregister(&t2); if (ret == 0 && t2 == NULL) s->obs = NULL; }
        break; }
    case OP_START: ret = m_mod_start(H(a[0])); break;
    case OP_PAUSE: ret = m_mod_pause(H(a[0])); break;
    case OP_RESUME: ret = m_mod_resume(H(a[0])); break;
    case OP_STOP: ret = m_mod_stop(H(a[0])); break;
    case OP_BIND: { m_mod_t *m = H(a[0]), *ref = H(a[1]); if (!m || !ref) { ret = -1007; break; } ret = m_mod_bind(m, ref); break; }   /* m follows the state changes of ref */
    case OP_OBS_DROP: { slot_t *s = &SL[SELF(a[0])]; if (s->obs) { m_mem_unrefp((void **)&s->obs); }
        /* a module deregistered by the library itself (context teardown, replacement) leaves the user's own reference to be dropped */
        if (s->handle) { m_mem_unrefp((void **)&s->handle); } break; }
    case OP_OBS_DROP_KEEP: { slot_t *s = &SL[SELF(a[0])]; if (s->obs) m_mem_unrefp((void **)&s->obs); break; }   /* the handle becomes the only user reference */
    case OP_TB: ret = m_mod_set_tokenbucket(H(a[0]), (uint32_t)a[1], (uint64_t)a[2]); break;
    case OP_BSIZE: ret = m_mod_set_batch_size(H(a[0]), (size_t)a[1]); break;
    case OP_BTIMEOUT: ret = m_mod_set_batch_timeout(H(a[0]), (uint64_t)a[1]); break;
    case OP_BECOME: ret = m_mod_become(H(a[0]), handlers[a[1] & 3]); break;
    case OP_UNBECOME: ret = m_mod_unbecome(H(a[0])); break;
    case OP_STASH: { int k = (int)a[1]; if (depth > 0 && k >= 0 && k < cur_nevts[depth]) ret = m_mod_stash(H(a[0]), cur_evts[depth][k]); else ret = -1001; break; }
    case OP_UNSTASH: ret = m_mod_unstash(H(a[0]), a[1] < 0 ? SIZE_MAX : (size_t)a[1]); break;
    case OP_TELL: case OP_PUBLISH: {
        /* the scenario's payload id is only a hint: scripts may run many times, so every *executed* send gets a
         * fresh unique payload (a delivery then identifies the send it came from) */
        static int pay_seq;
        void *payload; int pid;
        bool af = a[3] & M_PS_AUTOFREE;
        pay_seq++;
        pid = af ? TAG_PAY_BASE + pay_seq : 1 + (pay_seq % 65000);
        if (a[2] == 0) pid = 0;      /* explicit NULL payload (must be refused) */
        tr("N pay %llu %d", cur_call, pid);
        if (af) { if (nap >= MAXAPAY) { ret = -1002; break; } int *b = tagged_alloc(16, pid); b[0] = pid; AP[nap].p = b; AP[nap].id = pid; AP[nap].frees = 0; nap++; payload = b; }
        else payload = pid > 0 && pid < 65536 ? &PAYSTATIC[pid] : NULL;
        if (o->op == OP_TELL) ret = m_mod_ps_tell(H(a[0]), H(a[1]), payload, (m_ps_flags)a[3]);
        else ret = m_mod_ps_publish(H(a[0]), a[1] >= 0 ? topics[a[1]] : NULL, payload, (m_ps_flags)a[3]);
#ifndef VF_NO_LEDGER
        if (af && ret < 0 && vf_is_live(payload)) { AP[nap - 1].frees = -1000; vf_on_free = NULL; vf_free(payload); vf_on_free = on_free; }   /* refused send: payload stays ours */
#endif
        break; }
    case OP_PILL: ret = m_mod_ps_poisonpill(H(a[0]), H(a[1])); break;
    case OP_SUB: { const void *u = ud_ptr(a[3], a[2]); ret = m_mod_ps_subscribe(H(a[0]), topics[a[1]], (m_src_flags)a[2], u);
#ifndef VF_NO_LEDGER
        if (ret < 0 && (a[2] & M_SRC_AUTOFREE) && u && vf_is_live((void *)u)) { vf_on_free = NULL; vf_free((void *)u); vf_on_free = on_free; tr("N ud-returned %lld", a[3]); }
#endif
        break; }
    case OP_UNSUB: ret = m_mod_ps_unsubscribe(H(a[0]), topics[a[1]]); break;
    case OP_FD_OPEN: {
        ufd_t *u = &UFD[a[0]];
        if (u->open) { ret = -1003; break; }
        in_harness_io++;
        if (a[1] == 1) { u->rd = u->wr = __real_eventfd(0, EFD_NONBLOCK); u->kind = 1; }
        else if (a[1] == 2) {   /* a regular file: valid descriptor that the poll layer refuses */
            char f[200]; snprintf(f, sizeof(f), "%s/vfce_file_%d_%lld", scratch_dir(), getpid(), a[0]);
            int fd = open(f, O_CREAT | O_RDWR, 0600); unlink(f);
            if (fd < 0) { ret = -errno; in_harness_io--; break; }
            u->rd = u->wr = fd; u->kind = 2; }
        else if (a[1] == 3) {   /* a pipe registered by its WRITE end: once the reader is gone (fd_hup) it reports an error condition for ever */
            int p[2]; if (__real_pipe(p) != 0) { ret = -errno; in_harness_io--; break; } fcntl(p[0], F_SETFL, O_NONBLOCK); fcntl(p[1], F_SETFL, O_NONBLOCK); u->rd = p[1]; u->wr = p[0]; u->kind = 3; }
        else { int p[2]; if (__real_pipe(p) != 0) { ret = -errno; in_harness_io--; break; } fcntl(p[0], F_SETFL, O_NONBLOCK); fcntl(p[1], F_SETFL, O_NONBLOCK); u->rd = p[0]; u->wr = p[1]; u->kind = 0; }
        in_harness_io--;
        u->open = true; u->written = u->drained = 0; u->nodrain = a[2] != 0; u->rd_closed = u->wr_closed = false;
        user_fd_opened(u->rd, (int)a[0]); if (u->wr != u->rd) user_fd_opened(u->wr, (int)a[0]);
        ret = u->rd;
        break; }
    case OP_FD_WRITE: { ufd_t *u = &UFD[a[0]]; if (!u->open || u->wr_closed || u->kind == 3) { ret = -1004; break; } if (u->kind == 1) { uint64_t v = 1; ret = write(u->wr, &v, 8) == 8 ? 0 : -errno; } else { char c = 'x'; ret = write(u->wr, &c, 1) == 1 ? 0 : -errno; } if (ret == 0) u->written++; break; }
    case OP_FD_HUP: { ufd_t *u = &UFD[a[0]]; if (!u->open || (u->kind != 0 && u->kind != 3) || u->wr_closed || u->wr == u->rd) { ret = -1004; break; }
        __real_close(u->wr); user_fd_closed(u->wr); u->wr_closed = true; break; }
    case OP_FD_CLOSE: { ufd_t *u = &UFD[a[0]]; if (!u->open) { ret = -1004; break; }
        bool now[MAXFD]; snapshot_fds(now);
        /* only close descriptors that are still ours (the library may have auto-closed rd) */
        if (FDL[u->rd].open && FDL[u->rd].owner == FD_USER) { __real_close(u->rd); user_fd_closed(u->rd); }
        if (u->wr != u->rd && !u->wr_closed && FDL[u->wr].open && FDL[u->wr].owner == FD_USER) { __real_close(u->wr); user_fd_closed(u->wr); }
        u->open = false; break; }
    case OP_FD_REG: { ufd_t *u = &UFD[a[1]]; if (a[1] >= 0 && (!u->open || u->rd_closed)) { ret = -1004; break; } const void *p = ud_ptr(a[3], a[2]); int fd = a[1] >= 0 ? u->rd : (int)a[4];
        ret = m_mod_src_register_fd(H(a[0]), fd, (m_src_flags)a[2], p);
#ifndef VF_NO_LEDGER
        if (ret < 0 && (a[2] & M_SRC_AUTOFREE) && p && vf_is_live((void *)p)) { vf_on_free = NULL; vf_free((void *)p); vf_on_free = on_free; tr("N ud-returned %lld", a[3]); }
#endif
        break; }
    case OP_FD_DEREG: { ufd_t *u = &UFD[a[1]]; if (a[1] >= 0 && (!u->open || u->rd_closed)) { ret = -1004; break; } ret = m_mod_src_deregister_fd(H(a[0]), a[1] >= 0 ? u->rd : (int)a[4]); break; }
    case OP_TMR_REG: { m_src_tmr_t t = { a[4] == 1 ? CLOCK_REALTIME : a[4] == 9 ? (clockid_t)9999 : CLOCK_MONOTONIC, (uint64_t)a[1] }; const void *p = ud_ptr(a[3], a[2]); ret = m_mod_src_register_tmr(H(a[0]), &t, (m_src_flags)a[2], p);
#ifndef VF_NO_LEDGER
        if (ret < 0 && (a[2] & M_SRC_AUTOFREE) && p && vf_is_live((void *)p)) { vf_on_free = NULL; vf_free((void *)p); vf_on_free = on_free; tr("N ud-returned %lld", a[3]); }
#endif
        break; }
    case OP_TMR_DEREG: { m_src_tmr_t t = { CLOCK_MONOTONIC, (uint64_t)a[1] }; ret = m_mod_src_deregister_tmr(H(a[0]), &t); break; }
    case OP_SGN_REG: { m_src_sgn_t g = { (unsigned)a[1] }; ret = m_mod_src_register_sgn(H(a[0]), &g, (m_src_flags)a[2], ud_ptr(a[3], a[2] & ~M_SRC_AUTOFREE)); break; }
    case OP_SGN_DEREG: { m_src_sgn_t g = { (unsigned)a[1] }; ret = m_mod_src_deregister_sgn(H(a[0]), &g); break; }
    case OP_RAISE: ret = kill(getpid(), (int)a[0]); break;
    case OP_SIG_UNMASK: {   /* undo the harness's start-up blocking of its test signals in the calling (context) thread: threads created from now on inherit an open mask, like in an ordinary program */
        sigset_t m; sigemptyset(&m); sigaddset(&m, SIGUSR1); sigaddset(&m, SIGUSR2); for (int sg = SIGRTMIN; sg < SIGRTMIN + 6; sg++) sigaddset(&m, sg);
        ret = pthread_sigmask(SIG_UNBLOCK, &m, NULL); break; }
    case OP_PATH_REG: { m_src_path_t p = { paths[a[1]], (unsigned)a[4] }; ret = m_mod_src_register_path(H(a[0]), &p, (m_src_flags)a[2], ud_ptr(a[3], a[2] & ~M_SRC_AUTOFREE)); break; }
    case OP_PATH_DEREG: { m_src_path_t p = { paths[a[1]], 0 }; ret = m_mod_src_deregister_path(H(a[0]), &p); break; }
    case OP_RMPATH: {   /* the watched directory goes away (a watch on it can no longer be set) */
        int pi = (int)a[0]; if (pi < 0 || pi >= npaths) { ret = -1999; break; }
        in_harness_io++;
        DIR *d = opendir(paths[pi]);
        if (d) { struct dirent *e; while ((e = readdir(d))) { if (e->d_name[0] == '.') continue; char f[400]; snprintf(f, sizeof(f), "%s/%s", paths[pi], e->d_name); unlink(f); } closedir(d); }
        ret = rmdir(paths[pi]) == 0 ? 0 : -errno;
        in_harness_io--;
        break; }
    case OP_TOUCH: { char f[200]; static int ctr; snprintf(f, sizeof(f), "%s/f%d", paths[a[0]], ctr++); in_harness_io++; int fd = open(f, O_CREAT | O_WRONLY, 0600); if (fd >= 0) __real_close(fd); in_harness_io--; ret = fd >= 0 ? 0 : -errno; break; }
    case OP_CHILD_SPAWN: { pid_t p = fork(); if (p == 0) { for (;;) pause(); } children[a[0] & 7] = p; ret = p > 0 ? 0 : -errno; break; }
    case OP_CHILD_KILL: { pid_t p = children[a[0] & 7]; if (p > 0) { kill(p, SIGKILL); } ret = 0; break; }
    case OP_PID_REG: { m_src_pid_t p = { children[a[1] & 7] > 0 ? children[a[1] & 7] : (a[4] == 0 ? getpid() : (pid_t)a[4]), 0 }; ret = m_mod_src_register_pid(H(a[0]), &p, (m_src_flags)a[2], ud_ptr(a[3], a[2] & ~M_SRC_AUTOFREE)); break; }
    case OP_PID_DEREG: { m_src_pid_t p = { children[a[1] & 7] > 0 ? children[a[1] & 7] : (a[4] == 0 ? getpid() : (pid_t)a[4]), 0 }; ret = m_mod_src_deregister_pid(H(a[0]), &p); break; }
    case OP_TASK_REG: { taskarg_t *t = &TASKS[a[1] & 63]; t->sleep_us = (int)a[4]; t->retval = (int)a[5]; m_src_task_t k = { (int)a[1], task_fn }; ret = m_mod_src_register_task(H(a[0]), &k, (m_src_flags)(a[2] & ~M_SRC_AUTOFREE), t); break; }
    case OP_TASK_DEREG: { m_src_task_t k = { (int)a[1], task_fn }; ret = m_mod_src_deregister_task(H(a[0]), &k); break; }
    case OP_THRESH_REG: { m_src_thresh_t t = { (uint64_t)a[1], a[2] / 1000.0 }; ret = m_mod_src_register_thresh(H(a[0]), &t, (m_src_flags)(a[3] & ~M_SRC_AUTOFREE), ud_ptr(a[4], 0)); break; }
    case OP_THRESH_DEREG: { m_src_thresh_t t = { (uint64_t)a[1], a[2] / 1000.0 }; ret = m_mod_src_deregister_thresh(H(a[0]), &t); break; }
    case OP_SRCLEN: ret = m_mod_src_len(H(a[0]), (o->na > 1 && a[1] >= 0 && a[1] <= M_SRC_TYPE_END) ? (m_src_types)a[1] : M_SRC_TYPE_END); break;   /* optional 2nd arg: source type */
    case OP_MSTATS: { m_mod_stats_t st; ret = m_mod_stats(H(a[0]), &st); if (ret == 0) tr("N mstats %d sent=%llu recv=%llu", SELF(a[0]), (unsigned long long)st.sent_msgs, (unsigned long long)st.recv_msgs); break; }
    case OP_LOOKUP: { m_mod_t *m = m_mod_lookup(H(a[0]), SL[SELF(a[1])].name); ret = m ? slot_of_mod(m) : -1; break; }
    case OP_NAMEOF: { m_mod_t *m = H(a[0]); if (!m) { ret = -1007; break; } const char *n = m_mod_name(m); ret = (n && strcmp(n, SL[SELF(a[0])].name) == 0) ? 1 : 0; if (m && m_mod_is(m, M_MOD_ZOMBIE)) ret += 10; break; }
    case OP_EVT_RETAIN: { int k = (int)a[0]; if (depth > 0 && k >= 0 && k < cur_nevts[depth] && nret < 256) { m_evt_t *e = (m_evt_t *)cur_evts[depth][k]; ret_t *r = &RET[nret]; r->e = m_mem_ref(e); r->copy = *e; r->type = e->type; r->live = true;
            if (e->type == M_SRC_TYPE_PS) { r->key = topic_idx(e->ps_evt->topic); r->data = payload_id(e->ps_evt->data); }
            else if (e->type == M_SRC_TYPE_FD) r->key = e->fd_evt->fd; else if (e->type == M_SRC_TYPE_TMR) r->key = (long long)e->tmr_evt->ns; else if (e->type == M_SRC_TYPE_SGN) r->key = e->sgn_evt->signo; else if (e->type == M_SRC_TYPE_TASK) r->key = e->task_evt->tid; else r->key = 0;
            ret = nret++; } else ret = -1005; break; }
    case OP_EVT_CHECK: case OP_EVT_RELEASE: { int k = (int)a[0]; if (k < 0) k = nret + k; if (k < 0 || k >= nret || !RET[k].live) { ret = -1006; break; } ret_t *r = &RET[k]; m_evt_t *e = r->e; long long key = 0; int ok = 1;
        if ((int)e->type != r->type || e->userdata != r->copy.userdata || e->ts != r->copy.ts) ok = 0;
        if (ok) { if (e->type == M_SRC_TYPE_PS) { key = topic_idx(e->ps_evt->topic); if (payload_id(e->ps_evt->data) != r->data && r->data > 0 && r->data < TAG_PAY_BASE) ok = 0; (void)m_mod_name(e->ps_evt->sender); }
            else if (e->type == M_SRC_TYPE_FD) key = e->fd_evt->fd; else if (e->type == M_SRC_TYPE_TMR) key = (long long)e->tmr_evt->ns; else if (e->type == M_SRC_TYPE_SGN) key = e->sgn_evt->signo; else if (e->type == M_SRC_TYPE_TASK) key = e->task_evt->tid;
            if (key != r->key) ok = 0; }
        ret = ok;
        if (o->op == OP_EVT_RELEASE) { m_mem_unref(e); r->live = false; }
        break; }
    case OP_MOD_REF: { slot_t *s = &SL[SELF(a[0])]; if (s->obs) { m_mem_ref(s->obs); s->extra_refs++; } break; }
    case OP_MOD_UNREF: { slot_t *s = &SL[SELF(a[0])]; if (s->obs && s->extra_refs > 0) { m_mem_unref(s->obs); s->extra_refs--; } break; }
    case OP_SLEEP: { struct timespec ts = { a[0] / 1000000, (a[0] % 1000000) * 1000L }; nanosleep(&ts, NULL); break; }
    case OP_ERRNO: errno = (int)a[0]; break;
    case OP_QUIESCE: quiesce(); break;
    case OP_MOD_LOG: ret = m_mod_log(H(a[0]), "x%d", 1); break;
    case OP_MOD_DUMP: ret = m_mod_dump(H(a[0])); break;
    default: ret = -1999; break;
    }
    return ret;
}

static long pending_fault;
static void run_ops(script_t *s) {
    for (int i = 0; i < s->nops; i++) {
        op_t *o = &s->ops[i];
        if (o->op == OP_CTX_DISPATCH || o->op == OP_CTX_DISPATCH_UNTIL) {
            long long max = o->a[0];
            for (long long k = 0; k < max; k++) {
                unsigned long long id = ++call_id;
                tr("> %llu %d ctx_dispatch", id, depth);
                errno = 0;
                op_t d = { OP_CTX_DISPATCH, {0}, 0 };
                long long r = do_op(&d);
                int e = errno;
                m_ctx_stats_t st; int looping = ctx_ever && m_ctx_stats(&st) == 0;
                tr("< %llu %lld %d looping=%d", id, r, e, looping);
                observe();
                if (o->op == OP_CTX_DISPATCH_UNTIL && !looping && k > 0) break;
                if (o->op == OP_CTX_DISPATCH_UNTIL && o->a[1] > 0 && r == 0) { struct timespec ts = { 0, o->a[1] * 1000L }; nanosleep(&ts, NULL); }
            }
            continue;
        }
        unsigned long long id = ++call_id;
        char args[200]; int n = 0;
        for (int k = 0; k < o->na && n < 180; k++) n += snprintf(args + n, sizeof(args) - n, " %lld", o->a[k]);
        args[n] = 0;
        tr("> %llu %d %s%s", id, depth, opnames[o->op], args);
        cur_call = id;
        if (o->op == OP_FAULT) {        /* "fault k": the k-th allocation made by the NEXT operation fails */
            pending_fault = o->a[0];
            tr("< %llu 0 0", id);
            continue;
        }
        long armed = pending_fault;
        pending_fault = 0;
#ifndef VF_NO_LEDGER
        if (armed > 0) vf_fault_arm(armed);
#endif
        if (o->op != OP_ERRNO) errno = 0;
        long long r = do_op(o);
        int e = errno;
#ifndef VF_NO_LEDGER
        if (armed > 0) { bool fired = vf_fault_disarm(); tr("< %llu %lld %d fault=%d", id, r, e, fired ? 1 : 0); }
        else
#endif
        tr("< %llu %lld %d", id, r, e);
        observe();
    }
}

/* ------------------------------------------------------------------ scenario parser */
static int op_by_name(const char *n) { for (int i = 1; i < OP_MAX; i++) if (opnames[i] && strcmp(opnames[i], n) == 0) return i; return 0; }

static void parse(FILE *f) {
    char line[1024];
    script_t *cur = NULL;
    int cap = 0;
    while (fgets(line, sizeof(line), f)) {
        char *p = line; while (*p == ' ' || *p == '\t') p++;
        size_t L = strlen(p); while (L && (p[L - 1] == '\n' || p[L - 1] == '\r' || p[L - 1] == ' ')) p[--L] = 0;
        if (!*p || *p == '#') continue;
        char w[64]; int off = 0;
        if (sscanf(p, "%63s%n", w, &off) != 1) continue;
        char *rest = p + off; while (*rest == ' ') rest++;
        if (cur) {
            if (strcmp(w, "end") == 0) { cur = NULL; continue; }
            int op = op_by_name(w);
            if (!op) { tr("! unknown op %s", w); _exit(2); }
            if (cur->nops == cap) { cap = cap ? cap * 2 : 16; cur->ops = realloc(cur->ops, cap * sizeof(op_t)); }
            op_t *o = &cur->ops[cur->nops++];
            memset(o, 0, sizeof(*o)); o->op = op;
            char *q = rest;
            while (*q && o->na < 6) { char *endp; long long v = strtoll(q, &endp, 0); if (endp == q) break; o->a[o->na++] = v; q = endp; while (*q == ' ') q++; }
            continue;
        }
        if (strcmp(w, "mod") == 0) {
            int slot; char name[40]; unsigned flags; int hooks;
            if (sscanf(rest, "%d %39s %x %d", &slot, name, &flags, &hooks) != 4 || slot < 0 || slot >= MAXSLOT) die("bad mod line");
            strcpy(SL[slot].name, name); SL[slot].flags = flags; SL[slot].hooks = hooks; SL[slot].declared = true;
        } else if (strcmp(w, "topic") == 0) {
            int idx; char t[200];
            if (sscanf(rest, "%d %199s", &idx, t) != 2 || idx < 0 || idx >= MAXTOPIC) die("bad topic line");
            topics[idx] = strdup(t); if (idx >= ntopics) ntopics = idx + 1;
        } else if (strcmp(w, "path") == 0) {
            int idx; if (sscanf(rest, "%d", &idx) != 1 || idx < 0 || idx >= MAXPATH) die("bad path line");
            snprintf(paths[idx], sizeof(paths[idx]), "%s/vfce_%d_%d", scratch_dir(), getpid(), idx); mkdir(paths[idx], 0700); if (idx >= npaths) npaths = idx + 1;
        } else if (strcmp(w, "script") == 0) {
            char kind[16];
            if (sscanf(rest, "%15s", kind) != 1) die("bad script line");
            if (strcmp(kind, "main") == 0) { cur = &main_script; cap = 0; }
            else {
                int slot; char k[16], nth[16]; int ret = 1, err = -1;
                if (sscanf(rest, "cb %d %15s %15s ret=%d errno=%d", &slot, k, nth, &ret, &err) < 3) die("bad cb script line");
                int ki = -1; for (int i = 0; i < K_N; i++) if (strcmp(kindnames[i], k) == 0) ki = i;
                if (ki < 0 || slot < 0 || slot >= MAXSLOT) die("bad cb kind/slot");
                script_t *s = calloc(1, sizeof(script_t)); s->ret = ret; s->err = err;
                if (strcmp(nth, "*") == 0) SL[slot].cbs[ki].dflt = s; else { int n = atoi(nth); if (n >= 0 && n < MAXINV) SL[slot].cbs[ki].by_n[n] = s; }
                cur = s; cap = 0;
            }
        } else if (strcmp(w, "mode") == 0 || strcmp(w, "S") == 0 || strcmp(w, "nmods") == 0) {
            /* informational */
        } else { tr("! unknown directive %s", w); _exit(2); }
    }
}

/* ------------------------------------------------------------------ watchdog */
static void *watchdog(void *arg) {
    (void)arg;
    unsigned long long last = 0; int same = 0;
    int limit = getenv("VF_WATCHDOG_TICKS") ? atoi(getenv("VF_WATCHDOG_TICKS")) : 40;
    for (;;) {
        struct timespec ts = { 0, 250 * 1000 * 1000 }; nanosleep(&ts, NULL);
        unsigned long long s = atomic_load(&trace_seq);
        if (s == last) { if (++same >= limit) { tr("W watchdog blocking=%d", atomic_load(&in_blocking)); _exit(3); } } else same = 0;
        last = s;
    }
    return NULL;
}

static void cleanup_tmp(void) {
    for (int i = 0; i < npaths; i++) {
        DIR *d = opendir(paths[i]);
        if (d) { struct dirent *e; while ((e = readdir(d))) { if (e->d_name[0] == '.') continue; char f[400]; snprintf(f, sizeof(f), "%s/%s", paths[i], e->d_name); unlink(f); } closedir(d); }
        rmdir(paths[i]);
    }
    for (int i = 0; i < 8; i++) if (children[i] > 0) { kill(children[i], SIGKILL); waitpid(children[i], NULL, 0); }
}

int main(int argc, char **argv) {
    t0_us = now_us();
    FILE *in = stdin;
    if (argc > 1 && strcmp(argv[1], "-") != 0) { in = fopen(argv[1], "r"); if (!in) { perror("scenario"); return 2; } }
    if (argc > 2 && strcmp(argv[2], "-") != 0) { trace_fd = open(argv[2], O_CREAT | O_WRONLY | O_TRUNC, 0600); if (trace_fd < 0) { perror("trace"); return 2; } }
    else { trace_fd = __real_dup(1); int nul = open("/dev/null", O_WRONLY); dup2(nul, 1); __real_close(nul); }
    for (int i = 0; i < 65536; i++) PAYSTATIC[i] = i;
    /* signals used by scenarios stay blocked so that raising them never kills the process */
    sigset_t m; sigemptyset(&m); sigaddset(&m, SIGUSR1); sigaddset(&m, SIGUSR2); for (int s = SIGRTMIN; s < SIGRTMIN + 6; s++) sigaddset(&m, s);
    sigprocmask(SIG_BLOCK, &m, NULL);
    signal(SIGPIPE, SIG_IGN);
    parse(in);
    if (in != stdin) fclose(in);
#ifndef VF_NO_LEDGER
    vf_on_free = on_free;
    vf_fail_fatal = 0;
    vf_fail_hook = fail_hook;
    m_set_memhook(vf_malloc, vf_calloc, vf_free);
#endif
    snapshot_fds(baseline_fd);
    pthread_t wd; pthread_create(&wd, NULL, watchdog, NULL);
    atexit(cleanup_tmp);
    tr("# start");
    run_ops(&main_script);
    tr("# end fails=%d", vf_fail_count);
    cleanup_tmp();
    fflush(NULL);
    exit(0);
}

/* C05 — string-keyed map against a linear reference dictionary.
 * usage: structs_map <seed> <nseq> <maxops>
 */
#include "vfh.h"
#include <module/structs/itr.h>

#define MAXK 1400
#define MAXV 60000

typedef struct { int id; } val_t;
static val_t V[MAXV]; static int n_vals;
static bool v_dead[MAXV];        /* destructor ran */

typedef struct { const char *name; const char *stored; int val; bool live; int visits; } ent_t;

typedef struct {
    m_map_t *m;
    int flags; bool with_dtor;
    ent_t e[MAXK]; int ne;       /* every key ever used in this sequence; live flag says if present */
    int nlive;
} map_t;

/* ---- copy of the hash (only used to *mine* adversarial keys; validated at run time) ---- */
static size_t hash_copy(const char *key) {
    size_t hash = (const uint32_t)5381; char c;
    while ((c = *key++)) hash = ((hash << 5) + hash) + c;
    hash ^= hash >> 16; hash *= 0x85ebca6b; hash ^= hash >> 13; hash *= 0xc2b2ae35; hash ^= hash >> 16;
    return hash;
}
#define NPOOL 120000
static char pool[NPOOL][10];
static int by_slot256[256][64]; static int n_by_slot256[256];
static bool hash_copy_valid = true;

static int dlog[4096]; static int ndlog;
static void dtor_cb(void *p) {
    val_t *v = p;
    if (v < V || v >= V + MAXV) { vf_fail("C05/dtor-foreign-pointer", "value destructor called with %p", p); return; }
    if (ndlog < 4096) dlog[ndlog++] = v->id;
}

static char prog_txt[5000]; static int prog_len;
static unsigned long long cur_seed;
static void ptxt(const char *fmt, ...) {
    va_list ap; va_start(ap, fmt);
    if (prog_len < (int)sizeof(prog_txt) - 80) prog_len += vsnprintf(prog_txt + prog_len, sizeof(prog_txt) - prog_len, fmt, ap);
    va_end(ap);
}
#define BAD(key, ...) do { char _b[700]; snprintf(_b, sizeof(_b), __VA_ARGS__); vf_fail(key, "flags=%#x dtor=%d seed=%llu len=%d: %s | program: %s", c->flags, c->with_dtor, cur_seed, c->nlive, _b, prog_txt); } while (0)

static bool inject_faults; static long long st_failed_allocs;
static long long st_threshold, st_iter_upd, st_iter_ins, st_giant, st_maxlive, st_ops, st_updates, st_updates_dup, st_refused, st_growths, st_wrap_clusters, st_iter_rm, st_iter_rm_wrap, st_itr_rm, st_dtor, st_keys_same_slot, st_walks;

static val_t *new_val(void) { if (n_vals >= MAXV) return NULL; val_t *v = &V[n_vals]; v->id = n_vals; v_dead[n_vals] = false; n_vals++; return v; }

static void expect_dtor(map_t *c, const int *ids, int n, const char *what) {
    if (!c->with_dtor) n = 0;
    bool ok = ndlog == n;
    bool used[4096] = {0};
    for (int i = 0; ok && i < n; i++) {
        bool f = false;
        for (int j = 0; j < ndlog; j++) if (!used[j] && dlog[j] == ids[i]) { used[j] = f = true; break; }
        ok = f;
    }
    if (!ok) {
        char a[300] = "", b[300] = ""; int la = 0, lb = 0;
        for (int i = 0; i < n && la < 260; i++) la += snprintf(a + la, sizeof(a) - la, "v%d ", ids[i]);
        for (int i = 0; i < ndlog && lb < 260; i++) lb += snprintf(b + lb, sizeof(b) - lb, "v%d ", dlog[i]);
        BAD("C05/destructor-mismatch", "%s: value destructor expected exactly for [%s] but ran for [%s]", what, a, b);
    }
    for (int j = 0; j < ndlog; j++) {
        if (v_dead[dlog[j]]) BAD("C05/destructor-twice", "%s: value v%d destroyed twice", what, dlog[j]);
        v_dead[dlog[j]] = true;
    }
    st_dtor += ndlog;
    ndlog = 0;
}

static ent_t *find_ent(map_t *c, const char *name) { for (int i = 0; i < c->ne; i++) if (strcmp(c->e[i].name, name) == 0) return &c->e[i]; return NULL; }

static void check_len(map_t *c, const char *what) {
    ssize_t l = m_map_len(c->m);
    if (l != c->nlive) BAD("C05/len-mismatch", "after %s: len=%zd model=%d", what, l, c->nlive);
}

static bool keys_owned(map_t *c) { return c->flags & (M_MAP_KEY_DUP | M_MAP_KEY_AUTOFREE); }

static void op_put(map_t *c, const char *name, vf_rng *r) {
    ent_t *e = find_ent(c, name);
    if (!e) { if (c->ne >= MAXK) return; e = &c->e[c->ne++]; memset(e, 0, sizeof(*e)); e->name = name; }
    val_t *v = new_val();
    if (!v) return;
    bool same_value = false;
    if (e->live && vf_chance(r, 1, 12)) { v = &V[e->val]; same_value = true; }   /* re-put the very same value */
    size_t live0 = vf_live();
    uint64_t seq0 = vf_alloc_seq, fseq0 = vf_free_seq;
    const char *kp;
    char tmp[16];
    if (c->flags & M_MAP_KEY_DUP) { strcpy(tmp, name); kp = tmp; }
    else if (c->flags & M_MAP_KEY_AUTOFREE) {
        if (e->live) kp = e->stored;           /* map already owns this very pointer: no ownership ambiguity */
        else { char *k = vf_malloc(strlen(name) + 1); strcpy(k, name); kp = k; live0 = vf_live(); seq0 = vf_alloc_seq; }
    } else kp = name;
    ptxt("put(%s,v%d) ", name, v->id);
    /* now and then the first or second allocation made by the call fails: the put is refused without effect */
    bool fault = inject_faults && vf_chance(r, 1, 9);
    if (fault) vf_fault_arm(1 + (long)vf_below(r, 2));
    int ret = m_map_put(c->m, kp, v);
    fault = vf_fault_disarm() && fault;
    if (fault && ret < 0) {
        ptxt("[alloc failed] ");
        st_failed_allocs++;
        if ((c->flags & M_MAP_KEY_AUTOFREE) && !(c->flags & M_MAP_KEY_DUP) && !e->live) vf_free((void *)kp);   /* refused: the key is still ours */
        expect_dtor(c, NULL, 0, "put refused for lack of memory");
        void *now = m_map_get(c->m, name);
        int got = now ? ((val_t *)now)->id : -1, exp = e->live ? e->val : -1;
        if (got != exp) BAD("C05/get", "after a put of %s refused for lack of memory (%d): get returns v%d, model expects v%d", name, ret, got, exp);
        if (vf_live() != live0 - ((c->flags & M_MAP_KEY_AUTOFREE) && !(c->flags & M_MAP_KEY_DUP) && !e->live ? 1 : 0))
            BAD("C05/alloc-balance", "after a put refused for lack of memory: %ld allocations live, %ld before the call", (long)vf_live(), (long)live0);
        check_len(c, "put refused for lack of memory");
        return;
    }
    if (c->flags & M_MAP_KEY_DUP) memset(tmp, '#', sizeof(tmp) - 1);   /* caller's buffer is gone: the copy must be private */
    bool grew = (vf_alloc_seq - seq0) - ((c->flags & M_MAP_KEY_DUP) ? 1 : 0) > 0 && vf_free_seq > fseq0;
    if (!e->live) {
        if (ret != 0) { BAD("C05/put-new-failed", "put of new key %s returned %d", name, ret); return; }
        e->live = true; e->val = v->id; c->nlive++;
        if (!(c->flags & M_MAP_KEY_DUP)) e->stored = kp;
        expect_dtor(c, NULL, 0, "put new");
        long exp = (long)live0 + ((c->flags & M_MAP_KEY_DUP) ? 1 : 0);
        if ((long)vf_live() != exp) BAD("C05/alloc-balance", "put of new key: %ld allocations live, expected %ld (one private key copy only for key-dup maps)", (long)vf_live(), exp);
        if (grew) st_growths++;
    } else if (c->flags & M_MAP_VAL_ALLOW_UPDATE) {
        if (ret != 0) { BAD("C05/update-failed", "update of key %s returned %d", name, ret); return; }
        int old = e->val;
        e->val = v->id;
        st_updates++; if (c->flags & M_MAP_KEY_DUP) st_updates_dup++;
        if (same_value) expect_dtor(c, NULL, 0, "update with the same (still live) value");
        else expect_dtor(c, &old, 1, "update (old value replaced)");
        if (vf_live() != live0) BAD("C05/key-copy-leak", "update of existing key %s in a map with flags %#x: %ld allocations live, expected %ld (duplicated key must not be leaked)", name, c->flags, (long)vf_live(), (long)live0);
    } else {
        if (ret >= 0) BAD("C05/update-not-allowed", "put on existing key %s returned %d in a map without update flag", name, ret);
        st_refused++;
        expect_dtor(c, NULL, 0, "refused put");
        if (vf_live() != live0) BAD("C05/key-copy-leak", "refused put of existing key %s: %ld allocations live, expected %ld", name, (long)vf_live(), (long)live0);
    }
    /* remember the stored key pointer (needed for autofree updates) */
    if (c->nlive > st_maxlive) st_maxlive = c->nlive;
    check_len(c, "put");
}

static void op_get(map_t *c, const char *name) {
    ent_t *e = find_ent(c, name);
    void *p = m_map_get(c->m, name);
    bool has = m_map_contains(c->m, name);
    int exp = (e && e->live) ? e->val : -1;
    int got = p ? ((val_t *)p)->id : -1;
    if (got != exp) BAD("C05/get", "get(%s) returned v%d, model expects v%d", name, got, exp);
    if (has != (exp >= 0)) BAD("C05/contains", "contains(%s)=%d, model expects %d", name, has, exp >= 0);
    expect_dtor(c, NULL, 0, "get");
}

static void op_remove(map_t *c, const char *name) {
    ent_t *e = find_ent(c, name);
    ptxt("rm(%s) ", name);
    size_t live0 = vf_live();
    int ret = m_map_remove(c->m, name);
    if (e && e->live) {
        if (ret != 0) { BAD("C05/remove-failed", "remove of present key %s returned %d", name, ret); return; }
        e->live = false; c->nlive--;
        expect_dtor(c, &e->val, 1, "remove");
        long exp = (long)live0 - (keys_owned(c) ? 1 : 0);
        if ((long)vf_live() != exp) BAD("C05/alloc-balance", "remove: %ld allocations live, expected %ld (owned key released with its entry)", (long)vf_live(), exp);
    } else {
        if (ret >= 0) BAD("C05/remove-absent", "remove of absent key %s returned %d", name, ret);
        expect_dtor(c, NULL, 0, "remove absent");
    }
    check_len(c, "remove");
}

/* refresh stored key pointers + verify full content through an iterator (no edits) */
static void op_scan(map_t *c, const char *what) {
    for (int i = 0; i < c->ne; i++) c->e[i].visits = 0;
    int n = 0;
    for (m_map_itr_t *it = m_map_itr_new(c->m); it; m_map_itr_next(&it)) {
        const char *k = m_map_itr_get_key(it);
        val_t *v = m_map_itr_get_data(it);
        if (++n > MAXK + 2) { BAD("C05/itr-endless", "iterator does not terminate"); return; }
        ent_t *e = k ? find_ent(c, k) : NULL;
        if (!e || !e->live) { BAD("C05/itr-ghost", "%s: iterator yields key %s which is not live in the model", what, k ? k : "NULL"); return; }
        if (!v || v->id != e->val) BAD("C05/itr-value", "%s: iterator yields v%d for key %s, model has v%d", what, v ? v->id : -1, k, e->val);
        if (++e->visits > 1) BAD("C05/itr-visited-twice", "%s: key %s visited twice in one iteration", what, k);
        e->stored = k;
        if ((c->flags & M_MAP_KEY_DUP) && k == e->name) BAD("C05/key-not-private", "key-dup map stores the caller's pointer for %s", k);
    }
    for (int i = 0; i < c->ne; i++) if (c->e[i].live && c->e[i].visits != 1) BAD("C05/itr-missed", "%s: live key %s visited %d times", what, c->e[i].name, c->e[i].visits);
    st_walks++;
}

/* iterator walk with edits: rm_den: remove with probability 1/rm_den, set similarly */
static void op_walk(map_t *c, vf_rng *r, int rm_den, int set_den) {
    ptxt("walk[");
    for (int i = 0; i < c->ne; i++) c->e[i].visits = 0;
    bool was_live[MAXK]; for (int i = 0; i < c->ne; i++) was_live[i] = c->e[i].live;
    int n = 0;
    m_map_itr_t *it = m_map_itr_new(c->m);
    if (c->nlive == 0) { if (it) BAD("C05/itr-on-empty", "iterator on empty map"); ptxt("] "); return; }
    if (!it) { BAD("C05/itr-null", "itr_new NULL on map with %d entries", c->nlive); return; }
    for (; it; m_map_itr_next(&it)) {
        if (++n > MAXK + 2) { BAD("C05/itr-endless", "iterator does not terminate"); return; }
        const char *k = m_map_itr_get_key(it);
        val_t *v = m_map_itr_get_data(it);
        ent_t *e = k ? find_ent(c, k) : NULL;
        if (!e || !e->live) { BAD("C05/itr-ghost", "iterator yields key %s which is not live", k ? k : "NULL"); return; }
        if (!v || v->id != e->val) BAD("C05/itr-value", "iterator yields v%d for key %s, model has v%d", v ? v->id : -1, k, e->val);
        if (++e->visits > 1) { BAD("C05/itr-visited-twice", "key %s visited twice in one iterator pass (entries were removed through the iterator before)", k); return; }
        if (rm_den && vf_chance(r, 1, rm_den)) {
            ptxt("-%s ", e->name);
            size_t live0 = vf_live();
            int ret = m_map_itr_remove(it);
            if (ret != 0) BAD("C05/itr-remove-ret", "itr_remove returned %d", ret);
            e->live = false; c->nlive--;
            expect_dtor(c, &e->val, 1, "itr_remove");
            if ((long)vf_live() != (long)live0 - (keys_owned(c) ? 1 : 0)) BAD("C05/alloc-balance", "itr_remove: allocations %ld expected %ld", (long)vf_live(), (long)live0 - (keys_owned(c) ? 1 : 0));
            if (m_map_itr_get_key(it) || m_map_itr_get_data(it)) BAD("C05/itr-get-after-remove", "get after itr_remove not NULL");
            if (m_map_itr_remove(it) >= 0) BAD("C05/itr-remove-twice", "second itr_remove accepted");
            expect_dtor(c, NULL, 0, "refused itr ops");
            st_itr_rm++;
            check_len(c, "itr_remove");
        } else if (set_den && vf_chance(r, 1, set_den)) {
            val_t *nv = new_val();
            if (nv) {
                int ret = m_map_itr_set_data(it, nv);
                if (ret != 0) BAD("C05/itr-set-ret", "itr_set returned %d", ret);
                /* whether the replaced value is destroyed or handed back is not specified: accept both, follow what happened */
                if (ndlog == 1 && dlog[0] == e->val && c->with_dtor) { v_dead[e->val] = true; ndlog = 0; }
                e->val = nv->id;
                expect_dtor(c, NULL, 0, "itr_set");
            }
        }
    }
    for (int i = 0; i < c->ne; i++) if (was_live[i] && c->e[i].visits != 1) BAD("C05/itr-missed", "key %s (live at start of pass) visited %d times", c->e[i].name, c->e[i].visits);
    ptxt("] ");
    check_len(c, "walk");
}

/* callback iteration with removal of the current entry */
static int force_cb;
typedef struct { map_t *c; vf_rng *r; int rm_den; int stop_after; int ret_at_stop; int calls; bool failed; int upd_den; int ins_at; bool inserted; } icb_t;
static int iter_cb(void *up, const char *key, void *value) {
    icb_t *x = up; map_t *c = x->c;
    x->calls++;
    if (x->calls > MAXK + 2) { if (!x->failed) { x->failed = true; BAD("C05/iterate-endless", "callback iteration does not terminate"); } return -1; }
    ent_t *e = find_ent(c, key);
    if (!e || !e->live) { x->failed = true; BAD("C05/iterate-ghost", "callback got key %s which is not live", key); return -1; }
    if (!value || ((val_t *)value)->id != e->val) BAD("C05/iterate-value", "callback got v%d for key %s, model has v%d", value ? ((val_t *)value)->id : -1, key, e->val);
    if (++e->visits > 1) { x->failed = true; BAD("C05/iterate-visited-twice", "key %s handed to the callback twice in one m_map_iterate pass (current entries were removed inside the callback)", key); return -1; }
    if (x->stop_after && x->calls == x->stop_after) return x->ret_at_stop;
    if (x->rm_den && vf_chance(x->r, 1, x->rm_den)) {
        ptxt("-%s ", e->name);
        int ret = m_map_remove(c->m, e->name);
        if (ret != 0) BAD("C05/remove-failed", "remove of current key inside callback returned %d", ret);
        e->live = false; c->nlive--;
        expect_dtor(c, &e->val, 1, "remove inside iterate callback");
        st_iter_rm++;
    } else if (x->upd_den && vf_chance(x->r, 1, x->upd_den)) {
        /* put on the CURRENT key from inside the callback: an update (or a refused put) never moves entries around, the
         * pass goes on and still visits everything once - also when the map sits right at its growth threshold */
        const char *kp = (c->flags & M_MAP_KEY_DUP) ? e->name : (c->flags & M_MAP_KEY_AUTOFREE) ? e->stored : e->name;
        val_t *nv = kp ? new_val() : NULL;
        if (nv) {
            ptxt("=%s ", e->name);
            size_t live0 = vf_live();
            int ret = m_map_put(c->m, kp, nv);
            if (c->flags & M_MAP_VAL_ALLOW_UPDATE) {
                if (ret != 0) BAD("C05/update-failed", "update of the current key %s inside the iterate callback returned %d", e->name, ret);
                int old = e->val; e->val = nv->id;
                expect_dtor(c, &old, 1, "update inside iterate callback");
            } else {
                if (ret >= 0) BAD("C05/update-not-allowed", "put on the current key %s inside the callback returned %d in a map without update flag", e->name, ret);
                expect_dtor(c, NULL, 0, "refused put inside iterate callback");
            }
            if (vf_live() != live0 && !x->failed) BAD("C05/alloc-balance", "put on an existing key inside the iterate callback changed the number of live allocations %ld -> %ld (no growth, no key copy expected)", (long)live0, (long)vf_live());
            st_iter_upd++;
        }
    } else if (x->ins_at && x->calls == x->ins_at && !x->inserted) {
        /* put of ANOTHER (new) key from inside the callback: m_map_iterate must stop with an error */
        ent_t *ne = NULL;
        for (int i = 0; i < c->ne; i++) if (!c->e[i].live) { ne = &c->e[i]; break; }
        for (int t = 0; !ne && !(c->flags & M_MAP_KEY_AUTOFREE) && n_vals < MAXV - 2 && t < 50 && c->ne < MAXK; t++) {
            const char *cand = pool[vf_below(x->r, NPOOL)];
            if (!find_ent(c, cand)) { ne = &c->e[c->ne++]; memset(ne, 0, sizeof(*ne)); ne->name = cand; }
        }
        val_t *nv = ne ? new_val() : NULL;
        if (nv && !(c->flags & M_MAP_KEY_AUTOFREE)) {
            ptxt("+%s ", ne->name);
            int ret = m_map_put(c->m, ne->name, nv);
            if (ret != 0) BAD("C05/put-new-failed", "put of new key %s inside the iterate callback returned %d", ne->name, ret);
            ne->live = true; ne->val = nv->id; c->nlive++; ne->visits = 1;
            expect_dtor(c, NULL, 0, "put new inside iterate callback");
            x->inserted = true;
            st_iter_ins++;
        }
    }
    return 0;
}
static void op_iterate(map_t *c, vf_rng *r, int rm_den, int stop_after, int ret_at_stop) {
    ptxt("iterate[");
    for (int i = 0; i < c->ne; i++) c->e[i].visits = 0;
    bool was_live[MAXK]; for (int i = 0; i < c->ne; i++) was_live[i] = c->e[i].live;
    const int ne0 = c->ne;
    icb_t x = { c, r, rm_den, stop_after, ret_at_stop, 0, false, 0, 0, false };
    if (vf_chance(r, 1, 3)) x.upd_den = 1 + vf_below(r, 6);
    if (!rm_den && !stop_after && vf_chance(r, 1, 3)) x.ins_at = 1 + vf_below(r, c->nlive ? c->nlive : 1);
    if (force_cb == 1) { x.upd_den = 1; x.ins_at = 0; }
    if (force_cb == 2) { x.upd_den = 0; x.ins_at = 1 + vf_below(r, c->nlive ? c->nlive : 1); }
    force_cb = 0;
    int n0 = c->nlive;
    int ret = m_map_iterate(c->m, iter_cb, &x);
    ptxt("] ");
    if (x.failed) return;
    if (x.inserted) {
        if (ret >= 0) BAD("C05/iterate-ret", "the callback put another (new) key: m_map_iterate must stop with an error, returned %d after %d calls (inserted at call %d)", ret, x.calls, x.ins_at);
        check_len(c, "iterate with insertion");
        return;
    }
    if (n0 == 0) { if (x.calls) BAD("C05/iterate-on-empty", "callback invoked on empty map"); return; }
    bool stopped = stop_after && x.calls >= stop_after;
    if (stopped) {
        int exp = ret_at_stop < 0 ? ret_at_stop : 0;
        if (ret != exp) BAD("C05/iterate-ret", "iterate stopped by callback value %d returned %d, expected %d", ret_at_stop, ret, exp);
    } else {
        if (ret != 0) BAD("C05/iterate-ret", "complete iterate returned %d", ret);
        for (int i = 0; i < ne0; i++) if (was_live[i] && c->e[i].visits != 1) BAD("C05/iterate-missed", "key %s (live at start) handed to the callback %d times", c->e[i].name, c->e[i].visits);
    }
    check_len(c, "iterate");
}

static void op_clear(map_t *c) {
    ptxt("clear ");
    int ids[MAXK]; int n = 0;
    for (int i = 0; i < c->ne; i++) if (c->e[i].live) { ids[n++] = c->e[i].val; c->e[i].live = false; }
    c->nlive = 0;
    int ret = m_map_clear(c->m);
    if (ret != 0) BAD("C05/clear-ret", "clear returned %d", ret);
    expect_dtor(c, ids, n, "clear");
    check_len(c, "clear");
}

static void validate_hash_copy(void) {
    /* pairs of keys with distinct predicted home slots (table 256) must be iterated in slot order */
    m_map_t *m = m_map_new(0, NULL);
    static val_t dummy;
    int checked = 0;
    for (int t = 0; t < 400 && hash_copy_valid; t++) {
        const char *a = pool[t * 7 % NPOOL], *b = pool[(t * 13 + 5) % NPOOL];
        size_t sa = hash_copy(a) & 255, sb = hash_copy(b) & 255;
        if (sa == sb || (sa + 1) % 256 == sb || (sb + 1) % 256 == sa || sa == 0 || sb == 0 || strcmp(a, b) == 0) continue;
        m_map_put(m, a, &dummy); m_map_put(m, b, &dummy);
        m_map_itr_t *it = m_map_itr_new(m);
        const char *first = it ? m_map_itr_get_key(it) : NULL;
        while (it) m_map_itr_next(&it);
        const char *expect_first = sa < sb ? a : b;
        if (!first || strcmp(first, expect_first) != 0) hash_copy_valid = false;
        m_map_clear(m);
        checked++;
    }
    m_map_free(&m);
    if (checked < 50) hash_copy_valid = false;
}

static void run_sequence(uint64_t seed, int maxops, bool sample) {
    vf_rng r = { seed };
    map_t *c = calloc(1, sizeof(map_t));
    static const int flagsets[] = { 0, M_MAP_KEY_DUP, M_MAP_KEY_AUTOFREE, M_MAP_VAL_ALLOW_UPDATE, M_MAP_KEY_DUP | M_MAP_VAL_ALLOW_UPDATE,
                                    M_MAP_KEY_AUTOFREE | M_MAP_VAL_ALLOW_UPDATE, M_MAP_KEY_DUP | M_MAP_KEY_AUTOFREE | M_MAP_VAL_ALLOW_UPDATE };
    c->flags = flagsets[vf_below(&r, 7)];
    c->with_dtor = vf_chance(&r, 2, 3);
    cur_seed = seed; n_vals = 0; ndlog = 0; prog_len = 0; prog_txt[0] = 0;
    size_t live0 = vf_live();
    c->m = m_map_new(c->flags, c->with_dtor ? dtor_cb : NULL);
    if (!c->m) { vf_fail("C05/new-null", "m_map_new returned NULL"); return; }

    /* key population */
    int mode = vf_below(&r, hash_copy_valid ? 6 : 2);
    const char *keys[MAXK]; int nk = 0;
    bool wrap = false;
    if (mode == 0) { int R = 4 + vf_below(&r, 60); for (int i = 0; i < R; i++) keys[nk++] = pool[vf_below(&r, NPOOL)]; }
    else if (mode == 1) { int R = 200 + vf_below(&r, 900); for (int i = 0; i < R && nk < MAXK - 4; i++) keys[nk++] = pool[vf_below(&r, NPOOL)]; }   /* forces growth */
    else if (mode == 2) { int s = vf_below(&r, 256); for (int i = 0; i < n_by_slot256[s] && i < 30; i++) keys[nk++] = pool[by_slot256[s][i]]; st_keys_same_slot += nk; }
    else if (mode == 5) {
        /* one giant probe chain: a run of L consecutive home slots each holding its own key, plus keys homed early in the
         * run that end up displaced (by up to 127 slots) behind it; chains longer than half the table are legal below
         * the 0.75 load factor */
        int start = vf_below(&r, 256), L = 100 + vf_below(&r, 70);
        for (int i = 0; i < L; i++) { int h = (start + i) & 255; if (n_by_slot256[h] > 0) keys[nk++] = pool[by_slot256[h][0]]; }
        int D = 2 + vf_below(&r, 14);
        for (int i = 0; i < D; i++) { int h = (start + L - 20 - vf_below(&r, 100)) & 255; int which = 1 + vf_below(&r, 3); if (n_by_slot256[h] > which) keys[nk++] = pool[by_slot256[h][which]]; }
        st_giant++;
    }
    else {
        /* clusters that wrap the end of the 256-slot table: homes 253..255 plus a few at 0..2 */
        wrap = true;
        static const int homes[] = { 255, 255, 255, 254, 255, 254, 253, 255, 0, 255, 1, 254, 255, 0, 255, 2, 255 };
        int cnt[256] = {0};
        int want = 4 + vf_below(&r, 13);
        for (int i = 0; i < want; i++) { int h = homes[i]; if (cnt[h] < n_by_slot256[h]) keys[nk++] = pool[by_slot256[h][cnt[h]++]]; }
        if (mode == 4) for (int i = 0; i < 10; i++) keys[nk++] = pool[vf_below(&r, NPOOL)];
        st_wrap_clusters++;
    }
    int nops = 1 + vf_below(&r, maxops);
    if (mode == 1) nops += nk;        /* enough puts to actually grow */
    uint64_t h = seed ^ c->flags; bool nontriv = false;
    if (mode == 5) { for (int i = 0; i < nk; i++) op_put(c, keys[i], &r); prog_len = 0; ptxt("<giant chain of %d keys loaded in order> ", nk); }
    if (mode == 1) { int G = 150 + vf_below(&r, nk - 149); for (int i = 0; i < G && i < nk; i++) op_put(c, keys[i], &r); prog_len = 0; ptxt("<bulk load of %d keys> ", G); }
    if (mode == 1 && vf_chance(&r, 1, 2)) {
        /* park the map exactly on a growth threshold (0.75 load: 192 / 384 / 768 entries), then put from inside the callback:
         * an update of the current key must not move anything, a new key must stop the pass with an error */
        int thr = c->nlive <= 192 ? 192 : c->nlive <= 384 ? 384 : 768;
        for (int i = 0; i < nk && c->nlive < thr; i++) { ent_t *e = find_ent(c, keys[i]); if (!e || !e->live) op_put(c, keys[i], &r); }
        if (c->nlive == thr) {
            prog_len = 0; ptxt("<loaded up to the growth threshold: %d keys> ", thr);
            st_threshold++;
            op_scan(c, "scan");
            force_cb = 1 + vf_below(&r, 2);
            op_iterate(c, &r, 0, 0, 1);
            op_scan(c, "scan after callback puts");
            nontriv = true;
        }
    }
    inject_faults = vf_chance(&r, 1, 4);       /* a quarter of the sequences run with failing allocations */
    for (int i = 0; i < nops && n_vals < MAXV - 8; i++) {
        int o = vf_below(&r, 100);
        const char *k = keys[vf_below(&r, nk)];
        st_ops++;
        if (o < (mode == 1 ? 60 : 40)) op_put(c, k, &r);
        else if (o < 52) op_get(c, k);
        else if (o < 66) op_remove(c, k);
        else if (o < 76) { op_scan(c, "scan"); op_walk(c, &r, (mode == 1 || mode == 5) ? 10 + vf_below(&r, 40) : 1 + vf_below(&r, 4), vf_chance(&r, 1, 2) ? 3 : 0); nontriv = true; }
        else if (o < 86) { op_scan(c, "scan");
            int stop = vf_chance(&r, 1, 5) ? 1 + vf_below(&r, 4) : 0;
            int before = c->nlive;
            op_iterate(c, &r, vf_chance(&r, 4, 5) ? ((mode == 1 || mode == 5) ? 10 + vf_below(&r, 40) : 1 + vf_below(&r, 3)) : 0, stop, vf_chance(&r, 1, 2) ? 1 : -7);
            if (wrap && c->nlive < before) st_iter_rm_wrap++;
            nontriv = true; }
        else if (o < 88) { if ((mode != 1 && mode != 5) || vf_chance(&r, 1, 20)) op_clear(c); }
        else op_scan(c, "scan");
        h = vf_mix(h, o * 131 + c->nlive);
    }
    inject_faults = false;
    op_scan(c, "final scan");
    ptxt("free");
    int ids[MAXK]; int n = 0;
    for (int i = 0; i < c->ne; i++) if (c->e[i].live) ids[n++] = c->e[i].val;
    int ret = m_map_free(&c->m);
    if (ret != 0 || c->m) BAD("C05/free-ret", "free returned %d pointer %p", ret, (void *)c->m);
    c->nlive = 0;
    expect_dtor(c, ids, n, "free");
    if (vf_live() != live0) { vf_live_since(0, 4); BAD("C05/leak", "%zu allocations outstanding after free (keys duplicated by the map must be released)", vf_live() - live0); }
    if (getenv("VF_DEBUG")) fprintf(stderr, "mode=%d nk=%d nops=%d ne=%d nvals=%d\n", mode, nk, nops, c->ne, n_vals);
    if (nontriv) vf_sig(h);
    if (sample) printf("SAMPLE mode=%d flags=%#x dtor=%d seed=%llu: %.500s\n", mode, c->flags, c->with_dtor, (unsigned long long)seed, prog_txt);
    free(c);
}

int main(int argc, char **argv) {
    uint64_t seed = argc > 1 ? strtoull(argv[1], NULL, 0) : 1;
    int nseq = argc > 2 ? atoi(argv[2]) : 100;
    int maxops = argc > 3 ? atoi(argv[3]) : 300;
    setvbuf(stdout, NULL, _IOFBF, 1 << 16);
    for (int i = 0; i < NPOOL; i++) {
        snprintf(pool[i], sizeof(pool[i]), "k%d", i);
        int s = hash_copy(pool[i]) & 255;
        if (n_by_slot256[s] < 64) by_slot256[s][n_by_slot256[s]++] = i;
    }
    m_set_memhook(vf_malloc, vf_calloc, vf_free);
    validate_hash_copy();
    vf_stat("hash_copy_valid", hash_copy_valid);
    if (!hash_copy_valid) printf("INCONCLUSIVE adversarial key mining disabled: harness copy of the hash no longer predicts slot order\n");
    for (int i = 0; i < nseq; i++) run_sequence(seed * 1000003ULL + i, maxops, i < 2);
    vf_stat("max_live_entries", st_maxlive);
    vf_stat("sequences", nseq);
    vf_stat("ops", st_ops);
    vf_stat("updates", st_updates);
    vf_stat("updates_in_keydup_maps", st_updates_dup);
    vf_stat("refused_puts", st_refused);
    vf_stat("puts_refused_by_injected_allocation_failure", st_failed_allocs);
    vf_stat("table_growths", st_growths);
    vf_stat("wrap_cluster_sequences", st_wrap_clusters);
    vf_stat("giant_chain_sequences", st_giant);
    vf_stat("maps_parked_on_growth_threshold", st_threshold);
    vf_stat("updates_inside_iterate_callback", st_iter_upd);
    vf_stat("insertions_inside_iterate_callback", st_iter_ins);
    vf_stat("same_home_slot_keys", st_keys_same_slot);
    vf_stat("removals_inside_iterate_callback", st_iter_rm);
    vf_stat("iterate_with_removal_over_wrap_cluster", st_iter_rm_wrap);
    vf_stat("iterator_removals", st_itr_rm);
    vf_stat("full_scans", st_walks);
    vf_stat("destructor_calls_checked", st_dtor);
    fflush(stdout);
    return vf_fail_count ? 1 : 0;
}

/* C11 — ordered set against a sorted-array model.
 * usage: structs_bst <seed> <permK> <nrand> <rand_maxops>
 */
#include "vfh.h"
#include <module/structs/itr.h>

#define MAXN 600
#define MAXE 8192

typedef struct { int id; long key; } elem_t;
static elem_t E[MAXE];
static int n_elems;

/* elements are void*; in user-comparator mode they point into E[], in default mode they are fake addresses */
typedef struct {
    bool user_cmp, with_dtor;
    m_bst_t *t;
    void *model[MAXN]; int n;         /* ascending */
} set_t;

static void *dlog[MAXE]; static int ndlog;
/* a destructor may use the set it is called from: when armed, the destructor run by m_bst_remove() inserts a fresh element
 * (the set is consistent at that point: the removed element is already out) */
static m_bst_t *reent_tree; static void *reent_elem; static int reent_ret; static bool reent_ran;
static void dtor_cb(void *p) {
    if (ndlog < MAXE) dlog[ndlog++] = p;
    if (reent_tree && reent_elem && !reent_ran) { reent_ran = true; reent_ret = m_bst_insert(reent_tree, reent_elem); }
}

static long n_cmp_calls;
static int ptr_signed, ptr_locked;
static int cmp_cb(void *a, void *b) { n_cmp_calls++; long x = ((elem_t *)a)->key, y = ((elem_t *)b)->key; return (x > y) - (x < y); }
static int model_cmp(set_t *s, void *a, void *b) {
    if (s->user_cmp) return cmp_cb(a, b);
    /* default comparator: any consistent total order of the pointer values is accepted; the two natural ones (unsigned
     * and signed) differ only when handles from both halves of the address space meet: the first such set decides which
     * one the implementation uses and the harness holds it to that for the rest of the process */
    if (ptr_signed) return ((intptr_t)a > (intptr_t)b) - ((intptr_t)a < (intptr_t)b);
    return ((uintptr_t)a > (uintptr_t)b) - ((uintptr_t)a < (uintptr_t)b);
}
static void model_resort(set_t *s) {
    for (int i = 1; i < s->n; i++) { void *e = s->model[i]; int j = i; while (j > 0 && model_cmp(s, s->model[j - 1], e) > 0) { s->model[j] = s->model[j - 1]; j--; } s->model[j] = e; }
}

static char prog_txt[6000]; static int prog_len;
static unsigned long long cur_seed;
static void ptxt(const char *fmt, ...) {
    va_list ap; va_start(ap, fmt);
    if (prog_len < (int)sizeof(prog_txt) - 80) prog_len += vsnprintf(prog_txt + prog_len, sizeof(prog_txt) - prog_len, fmt, ap);
    va_end(ap);
}
static const char *ename(set_t *s, void *p) {
    static char b[4][40]; static int k; k = (k + 1) & 3;
    if (!p) return "NULL";
    if (s->user_cmp) snprintf(b[k], 40, "e%d(k%ld)", ((elem_t *)p)->id, ((elem_t *)p)->key); else snprintf(b[k], 40, "%p", p);
    return b[k];
}
#define BAD(key, ...) do { char _b[700]; snprintf(_b, sizeof(_b), __VA_ARGS__); vf_fail(key, "cmp=%s dtor=%d seed=%llu: %s | program: %s", s->user_cmp ? "user" : "default", s->with_dtor, cur_seed, _b, prog_txt); } while (0)

static long long st_half_pairs, st_both_halves_sets, st_ops, st_rm_two_children, st_itr_rm, st_far_pairs, st_dtor, st_trav;
static long long st_failed_allocs, st_reent_inserts;
static bool inject_faults;

static int m_find(set_t *s, void *key) { for (int i = 0; i < s->n; i++) if (model_cmp(s, key, s->model[i]) == 0) return i; return -1; }
static void m_insert(set_t *s, void *e) {
    int i = 0; while (i < s->n && model_cmp(s, e, s->model[i]) > 0) i++;
    memmove(&s->model[i + 1], &s->model[i], (s->n - i) * sizeof(void *));
    s->model[i] = e; s->n++;
}
static void *m_remove_at(set_t *s, int i) {
    void *e = s->model[i];
    memmove(&s->model[i], &s->model[i + 1], (s->n - i - 1) * sizeof(void *));
    s->n--;
    return e;
}

static void expect_dtor(set_t *s, void **els, int n, const char *what) {
    if (!s->with_dtor) n = 0;
    bool ok = ndlog == n;
    bool used[MAXN] = {0};
    for (int i = 0; ok && i < n; i++) {
        bool f = false;
        for (int j = 0; j < ndlog; j++) if (!used[j] && dlog[j] == els[i]) { used[j] = f = true; break; }
        ok = f;
    }
    if (!ok) {
        char a[300] = "", b[300] = ""; int la = 0, lb = 0;
        for (int i = 0; i < n && la < 260; i++) la += snprintf(a + la, sizeof(a) - la, "%s ", ename(s, els[i]));
        for (int i = 0; i < ndlog && lb < 260; i++) lb += snprintf(b + lb, sizeof(b) - lb, "%s ", ename(s, dlog[i]));
        BAD("C11/destructor-mismatch", "%s: destructor expected exactly for [%s] but ran for [%s]", what, a, b);
    }
    st_dtor += ndlog;
    ndlog = 0;
}

static void *tv[3][MAXN]; static int ntv[3];
static int cur_order;
static int tv_cb(void *up, void *data) { (void)up; if (ntv[cur_order] < MAXN) tv[cur_order][ntv[cur_order]++] = data; return 0; }

/* rebuild the unique BST shape from (pre, in) and emit its post-order */
static int post_out_n; static void *post_out[MAXN];
static void rebuild(set_t *s, void **pre, int *pi, int lo, int hi /* range in model (inorder) */) {
    if (lo > hi) return;
    void *root = pre[(*pi)++];
    int m = -1;
    for (int i = lo; i <= hi; i++) if (s->model[i] == root) { m = i; break; }
    if (m < 0) { post_out_n = -1; return; }
    rebuild(s, pre, pi, lo, m - 1);
    if (post_out_n < 0) return;
    rebuild(s, pre, pi, m + 1, hi);
    if (post_out_n < 0) return;
    post_out[post_out_n++] = root;
}

static void verify(set_t *s, const char *what, bool deep) {
    ssize_t len = m_bst_len(s->t);
    if (len != s->n) BAD("C11/len-mismatch", "after %s: len=%zd model=%d", what, len, s->n);
    if (!deep) return;
    for (int o = 0; o < 3; o++) {
        ntv[o] = 0; cur_order = o;
        int r = m_bst_traverse(s->t, o == 0 ? M_BST_IN : o == 1 ? M_BST_PRE : M_BST_POST, tv_cb, NULL);
        if (r != 0) BAD("C11/traverse-ret", "traverse returned %d", r);
        if (ntv[o] != s->n) BAD("C11/traverse-count", "after %s: traversal %d visited %d elements, set has %d", what, o, ntv[o], s->n);
    }
    st_trav++;
    if (!s->user_cmp && !ptr_locked && s->n >= 2 && ntv[0] == s->n) {
        bool lo = false, hi = false;
        for (int i = 0; i < s->n; i++) { if ((uintptr_t)s->model[i] >> 63) hi = true; else lo = true; }
        if (lo && hi) {
            bool same = true;
            for (int i = 0; i < s->n; i++) if (tv[0][i] != s->model[i]) same = false;
            if (!same) {
                ptr_signed = 1; model_resort(s);
                for (int i = 0; i < s->n; i++) if (tv[0][i] != s->model[i]) { ptr_signed = 0; break; }
                if (!ptr_signed) model_resort(s);
            }
            ptr_locked = 1;
            st_both_halves_sets++;
        }
    }
    for (int i = 0; i < s->n; i++) {
        if (tv[0][i] != s->model[i]) {
            BAD("C11/inorder-mismatch", "after %s: in-order position %d yields %s, model (ascending) expects %s", what, i, ename(s, tv[0][i]), ename(s, s->model[i]));
            return;
        }
    }
    /* pre/post consistent with ONE binary search tree */
    int pi = 0; post_out_n = 0;
    rebuild(s, tv[1], &pi, 0, s->n - 1);
    bool ok = post_out_n == s->n;
    for (int i = 0; ok && i < s->n; i++) ok = post_out[i] == tv[2][i];
    if (!ok) BAD("C11/pre-post-inconsistent", "after %s: pre-order and post-order traversals do not describe one binary search tree over the in-order sequence", what);
    /* iterate() == pre-order per header; only count is required */
}

static elem_t *new_elem(long key) { if (n_elems >= MAXE) return NULL; elem_t *e = &E[n_elems]; e->id = n_elems++; e->key = key; return e; }

/* number of children of the node holding model[i] is not observable; we count "two children" removals
 * approximately from pre-order: node has two children iff something smaller and something larger sit below it.
 * Used only for the coverage counter. */
static bool has_two_children(set_t *s, void *e) {
    ntv[1] = 0; cur_order = 1; m_bst_traverse(s->t, M_BST_PRE, tv_cb, NULL);
    int pos = -1; for (int i = 0; i < ntv[1]; i++) if (tv[1][i] == e) { pos = i; break; }
    if (pos < 0 || pos + 1 >= ntv[1]) return false;
    /* subtree of e = maximal following run within (lo,hi) bounds; simple check: next elem smaller (left child exists)
     * and some later elem larger than e but smaller than the nearest greater ancestor */
    void *anc_hi = NULL;
    for (int i = 0; i < pos; i++) if (model_cmp(s, tv[1][i], e) > 0 && (!anc_hi || model_cmp(s, tv[1][i], anc_hi) < 0)) anc_hi = tv[1][i];
    if (model_cmp(s, tv[1][pos + 1], e) > 0) return false;
    for (int i = pos + 2; i < ntv[1]; i++) {
        if (model_cmp(s, tv[1][i], e) > 0) return !anc_hi || model_cmp(s, tv[1][i], anc_hi) < 0;
    }
    return false;
}

static void op_insert(set_t *s, void *e) {
    if (s->n >= MAXN - 2) return;
    ptxt("ins(%s) ", ename(s, e));
    int present = m_find(s, e);
    bool fault = inject_faults && (n_cmp_calls + s->n + n_elems) % 11 == 0;
    if (fault) vf_fault_arm(1);
    int r = m_bst_insert(s->t, e);
    fault = fault && vf_fault_disarm();
    vf_fault_disarm();
    if (present >= 0) {
        if (r >= 0) BAD("C11/duplicate-accepted", "insert of %s returned %d although %s compares equal and is present", ename(s, e), r, ename(s, s->model[present]));
    } else if (fault && r < 0) {
        /* the node could not be allocated: the insert is refused and nothing changes (len is checked by the caller's verify) */
        ptxt("[alloc failed] ");
        st_failed_allocs++;
        if (m_bst_len(s->t) != s->n) BAD("C11/len-mismatch", "after an insert refused for lack of memory (%d): len=%zd model=%d", r, m_bst_len(s->t), s->n);
        if (m_bst_find(s->t, e)) BAD("C11/find", "element %s is found although its insert was refused for lack of memory", ename(s, e));
    } else {
        if (r != 0) BAD("C11/insert-refused", "insert of new element %s returned %d (no element comparing equal is present)", ename(s, e), r);
        m_insert(s, e);
    }
    expect_dtor(s, NULL, 0, "insert");
}
static void op_remove(set_t *s, void *key) {
    ptxt("rm(%s) ", ename(s, key));
    int present = m_find(s, key);
    if (present >= 0 && has_two_children(s, s->model[present])) st_rm_two_children++;
    /* now and then the destructor of the removed element inserts a fresh neighbour of it into the same set */
    void *fresh = NULL;
    if (present >= 0 && s->user_cmp && s->with_dtor && inject_faults && s->n < MAXN - 4 && (n_cmp_calls % 5) == 0) {
        long k0 = ((elem_t *)s->model[present])->key;
        for (int d = 0; d < 4 && !fresh; d++) {
            long k = d == 0 ? k0 + 1 : d == 1 ? k0 - 1 : d == 2 ? k0 + 2 : k0 - 2;
            elem_t probe = { -1, k };
            if (m_find(s, &probe) < 0) fresh = new_elem(k);
        }
        if (fresh) { reent_tree = s->t; reent_elem = fresh; reent_ran = false; reent_ret = -9999; ptxt("[dtor inserts %s] ", ename(s, fresh)); }
    }
    int r = m_bst_remove(s->t, key);
    reent_tree = NULL; reent_elem = NULL;
    if (present < 0) {
        if (r >= 0) BAD("C11/remove-absent", "remove of absent key returned %d", r);
        expect_dtor(s, NULL, 0, "remove absent");
    } else {
        void *e = m_remove_at(s, present);
        if (r != 0) BAD("C11/remove-ret", "remove of present key returned %d", r);
        expect_dtor(s, &e, 1, "remove");
        if (fresh) {
            if (!reent_ran) BAD("C11/destructor-mismatch", "remove: the destructor did not run");
            else if (reent_ret != 0) BAD("C11/insert-refused", "insert of new element %s from the destructor run by remove returned %d (no element comparing equal is present)", ename(s, fresh), reent_ret);
            else { m_insert(s, fresh); st_reent_inserts++; }
            if (m_bst_len(s->t) != s->n) BAD("C11/len-mismatch", "after remove whose destructor inserted %s: len=%zd model=%d", ename(s, fresh), m_bst_len(s->t), s->n);
            if (reent_ret == 0 && m_bst_find(s->t, fresh) != fresh) BAD("C11/find", "element %s accepted by an insert made from the destructor run by remove is not found", ename(s, fresh));
        }
    }
}
static void op_find(set_t *s, void *key) {
    int present = m_find(s, key);
    void *p = m_bst_find(s->t, key);
    void *exp = present >= 0 ? s->model[present] : NULL;
    if (p != exp) BAD("C11/find", "find(%s) returned %s, model expects %s", ename(s, key), ename(s, p), ename(s, exp));
    expect_dtor(s, NULL, 0, "find");
}
static void op_clear(set_t *s) {
    ptxt("clear ");
    void *els[MAXN]; int n = s->n; memcpy(els, s->model, n * sizeof(void *));
    int r = m_bst_clear(s->t);
    if (n > 0 && r != 0) BAD("C11/clear-ret", "clear returned %d", r);
    s->n = 0;
    expect_dtor(s, els, n, "clear");
}
/* in-order iterator walk, removing the positions whose bit is set in mask (position = index among visited) */
static void op_walk(set_t *s, const uint8_t *rm) {
    ptxt("walk[");
    m_bst_itr_t *itr = m_bst_itr_new(s->t);
    if (s->n == 0) { if (itr) BAD("C11/itr-on-empty", "iterator on empty set"); ptxt("] "); return; }
    if (!itr) { BAD("C11/itr-null", "itr_new NULL on set of %d", s->n); return; }
    int cur = 0, visited = 0, guard = 0;
    while (itr) {
        if (++guard > 3 * MAXN) { BAD("C11/itr-endless", "iterator does not terminate"); return; }
        if (cur >= s->n) { BAD("C11/itr-overrun", "iterator yields more elements than the set holds"); return; }
        void *p = m_bst_itr_get_data(itr);
        if (p != s->model[cur]) { BAD("C11/itr-order", "iterator position %d yields %s, ascending model expects %s", visited, ename(s, p), ename(s, s->model[cur])); return; }
        if (rm[visited]) {
            ptxt("%d ", visited);
            if (has_two_children(s, s->model[cur])) st_rm_two_children++;
            void *e = m_remove_at(s, cur);
            int r = m_bst_itr_remove(itr);
            if (r != 0) BAD("C11/itr-remove-ret", "itr_remove returned %d", r);
            expect_dtor(s, &e, 1, "itr_remove");
            if (m_bst_itr_get_data(itr) != NULL) BAD("C11/itr-get-after-remove", "get after remove is not NULL");
            if (m_bst_itr_remove(itr) >= 0) BAD("C11/itr-remove-twice", "second remove accepted");
            expect_dtor(s, NULL, 0, "refused second itr_remove");
            st_itr_rm++;
            if (m_bst_len(s->t) != s->n) BAD("C11/len-mismatch", "during walk len=%zd model=%d", m_bst_len(s->t), s->n);
        } else cur++;
        visited++;
        m_bst_itr_next(&itr);
    }
    if (cur != s->n) BAD("C11/itr-early-end", "iterator ended after %d of %d remaining elements", cur, s->n);
    ptxt("] ");
}

static void s_new(set_t *s, bool user_cmp, bool with_dtor) {
    memset(s, 0, sizeof(*s));
    s->user_cmp = user_cmp; s->with_dtor = with_dtor;
    s->t = m_bst_new(user_cmp ? cmp_cb : NULL, with_dtor ? dtor_cb : NULL);
    if (!s->t) vf_fail("C11/new-null", "m_bst_new returned NULL");
    n_elems = 0; ndlog = 0; prog_len = 0; prog_txt[0] = 0;
}
static void s_free(set_t *s, uint64_t live0) {
    ptxt("free");
    void *els[MAXN]; int n = s->n; memcpy(els, s->model, n * sizeof(void *));
    int r = m_bst_free(&s->t);
    if (r != 0 || s->t) BAD("C11/free-ret", "free returned %d, pointer %p", r, (void *)s->t);
    s->n = 0;
    expect_dtor(s, els, n, "free");
    if (vf_live() != live0) { vf_live_since(0, 4); BAD("C11/leak", "%zu allocations outstanding after free", vf_live() - live0); }
}

/* fake far-apart pointers for the default comparator (never dereferenced) */
static void *far_ptr(vf_rng *r, void **pool, int npool) {
    static const uint64_t deltas[] = { 1ULL << 63, (1ULL << 63) + 16, (1ULL << 63) - 16, 1ULL << 62, 3ULL << 62, 0x7ffffffffffffff0ULL, 1ULL << 32, 2ULL << 32, 3ULL << 32, (1ULL << 31) + 8, (1ULL << 31), (1ULL << 33) - 16, 1ULL << 40, 1ULL << 46, 16, 4096, (1ULL << 32) + 16, (1ULL << 32) - 16, 0x7fffffff0ULL };
    uint64_t base = 0x100000000000ULL;
    if (npool && vf_chance(r, 3, 4)) {
        uint64_t p = (uint64_t)(uintptr_t)pool[vf_below(r, npool)];
        uint64_t d = deltas[vf_below(r, sizeof(deltas) / sizeof(*deltas))];
        uint64_t q = vf_chance(r, 1, 2) ? p + d : (p > d + 4096 ? p - d : p + d);
        if (q > 4096) { st_far_pairs++; if ((q ^ p) >> 63) st_half_pairs++; return (void *)(uintptr_t)q; }
    }
    return (void *)(uintptr_t)(base + 16 * (uint64_t)vf_below(r, 1 << 20) + ((uint64_t)vf_below(r, 64) << 32));
}

static long long n_exh;
static void permute_all(int K, bool user_cmp, bool with_dtor) {
    int perm[10];
    for (int i = 0; i < K; i++) perm[i] = i;
    for (;;) {
        /* variants: -1 none; 0..K-1 remove key v; K..2K-1 iterator-remove position; then all masks for K<=6 */
        int nvar = 1 + 2 * K + (K <= 6 ? (1 << K) : 0);
        for (int v = 0; v < nvar; v++) {
            set_t st, *s = &st; uint64_t live0 = vf_live();
            s_new(s, user_cmp, with_dtor);
            cur_seed = 0;
            void *els[10];
            for (int i = 0; i < K; i++) {
                /* default comparator: spread the fake addresses 1.5*2^32 apart: int truncation of the difference flips signs / yields 0 */
                els[i] = user_cmp ? (void *)new_elem(perm[i] * 10) : (void *)(uintptr_t)(0x200000000000ULL + (uint64_t)perm[i] * 0x180000000ULL);
                op_insert(s, els[i]);
            }
            verify(s, "inserts", true);
            uint8_t rm[MAXN]; memset(rm, 0, sizeof(rm));
            if (v >= 1 && v <= K) {
                int key = v - 1;
                for (int i = 0; i < K; i++) if (perm[i] == key) { elem_t probe = { -1, key * 10 }; op_remove(s, user_cmp ? (void *)&probe : els[i]); }
            } else if (v > K && v <= 2 * K) { rm[v - K - 1] = 1; op_walk(s, rm); }
            else if (v > 2 * K) { int mask = v - 2 * K - 1; for (int b = 0; b < K; b++) rm[b] = (mask >> b) & 1; op_walk(s, rm); }
            verify(s, "variant", true);
            /* keep using it */
            for (int i = 0; i < K; i++) op_find(s, els[i]);
            if (user_cmp) { elem_t *e = new_elem(5); op_insert(s, e); elem_t probe = { -1, 5 }; op_remove(s, &probe); }
            verify(s, "reuse", true);
            s_free(s, live0);
            n_exh++;
            if ((n_exh & 0xff) == 1) vf_sig(vf_mix(n_exh, K * 4 + user_cmp * 2 + with_dtor));
        }
        /* next permutation */
        int i = K - 2; while (i >= 0 && perm[i] > perm[i + 1]) i--;
        if (i < 0) break;
        int j = K - 1; while (perm[j] < perm[i]) j--;
        int t = perm[i]; perm[i] = perm[j]; perm[j] = t;
        for (int a = i + 1, b = K - 1; a < b; a++, b--) { t = perm[a]; perm[a] = perm[b]; perm[b] = t; }
    }
}

static void random_run(uint64_t seed, int maxops, bool sample) {
    vf_rng r = { seed };
    bool user_cmp = vf_chance(&r, 1, 2), with_dtor = vf_chance(&r, 2, 3);
    set_t st, *s = &st; uint64_t live0 = vf_live();
    s_new(s, user_cmp, with_dtor);
    cur_seed = seed;
    inject_faults = vf_chance(&r, 1, 3);       /* a third of the programs: failing allocations, destructors that insert */
    int nops = 1 + vf_below(&r, maxops);
    int keyrange = 4 + vf_below(&r, 200);
    void *pool[MAXN]; int npool = 0;
    uint64_t h = seed; bool nontriv = false;
    for (int i = 0; i < nops && n_elems < MAXE - 8; i++) {
        int o = vf_below(&r, 100);
        st_ops++;
        if (o < 45) {
            void *e;
            if (user_cmp) e = new_elem(vf_below(&r, keyrange));
            else { e = (npool && vf_chance(&r, 1, 6)) ? pool[vf_below(&r, npool)] : far_ptr(&r, pool, npool); if (npool < MAXN) pool[npool++] = e; }
            if (e) op_insert(s, e);
        } else if (o < 70) {
            if (user_cmp) { elem_t probe = { -1, (long)vf_below(&r, keyrange) }; op_remove(s, &probe); }
            else if (npool) op_remove(s, vf_chance(&r, 5, 6) ? pool[vf_below(&r, npool)] : far_ptr(&r, pool, npool));
            nontriv = true;
        } else if (o < 82) {
            if (user_cmp) { elem_t probe = { -1, (long)vf_below(&r, keyrange) }; op_find(s, &probe); }
            else if (npool) op_find(s, vf_chance(&r, 5, 6) ? pool[vf_below(&r, npool)] : far_ptr(&r, pool, npool));
        } else if (o < 84) op_clear(s);
        else if (o < 94) {
            uint8_t rm[MAXN]; int dens = 1 + vf_below(&r, 5);
            for (int j = 0; j < MAXN; j++) rm[j] = vf_chance(&r, 1, dens + 1);
            op_walk(s, rm);
            nontriv = true;
        }
        verify(s, "op", (o % 4) == 0 || o >= 84);
        h = vf_mix(h, o * 977 + s->n);
    }
    verify(s, "end", true);
    inject_faults = false;
    s_free(s, live0);
    if (nontriv) vf_sig(h);
    if (sample) printf("SAMPLE cmp=%s dtor=%d seed=%llu: %.600s\n", user_cmp ? "user" : "default", with_dtor, (unsigned long long)seed, prog_txt);
}

int main(int argc, char **argv) {
    uint64_t seed = argc > 1 ? strtoull(argv[1], NULL, 0) : 1;
    int K = argc > 2 ? atoi(argv[2]) : 5;
    int nrand = argc > 3 ? atoi(argv[3]) : 200;
    int maxops = argc > 4 ? atoi(argv[4]) : 300;
    int slice = argc > 5 ? atoi(argv[5]) : -1;     /* which (cmp,dtor) combination enumerates permutations */
    int onlyK = argc > 6 ? atoi(argv[6]) : -1;
    setvbuf(stdout, NULL, _IOFBF, 1 << 16);
    m_set_memhook(vf_malloc, vf_calloc, vf_free);
    for (int k = 1; k <= K; k++) {
        if (onlyK > 0 && k != onlyK) continue;
        for (int c = 0; c < 4; c++) if (slice < 0 || slice == c) permute_all(k, c & 1, c >> 1);
    }
    vf_stat("permutation_cases", n_exh);
    for (int i = 0; i < nrand; i++) random_run(seed * 1000003ULL + i, maxops, i < 2);
    vf_stat("random_programs", nrand);
    vf_stat("ops", st_ops);
    vf_stat("removals_of_two_children_nodes", st_rm_two_children);
    vf_stat("inserts_refused_by_injected_allocation_failure", st_failed_allocs);
    vf_stat("inserts_made_from_a_destructor", st_reent_inserts);
    vf_stat("iterator_removals", st_itr_rm);
    vf_stat("far_apart_pointer_keys", st_far_pairs);
    vf_stat("pointer_keys_2pow63_apart", st_half_pairs);
    vf_stat("default_comparator_order_is_signed", ptr_signed);
    vf_stat("destructor_calls_checked", st_dtor);
    vf_stat("full_traversal_checks", st_trav);
    fflush(stdout);
    return vf_fail_count ? 1 : 0;
}

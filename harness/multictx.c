/* C14 — independent contexts on different threads + foreign-thread call matrix.
 * usage: multictx <seed> <threads> <steps> <mode>     mode: 0 concurrent, 1 alone (one thread after the other), 2 matrix only
 * prints per-context deterministic counters:  CTX <thread> <module> sent=<n> recv_ps=<n> recv_fd=<n> steps=<n> quit=<code>
 */
#define VF_NO_LEDGER
#include "vfh.h"
#include <fcntl.h>
#include <signal.h>
#include <time.h>
#include <module/mod.h>
#include <module/ctx.h>
#include <module/mem/mem.h>

#define MAXT 8
#define MAXM 4

typedef struct thr thr_t;
typedef struct { thr_t *t; int idx; m_mod_t *h; long recv_ps, recv_fd, recv_tmr, recv_task, sent; int pipefd[2]; } modst_t;
struct thr {
    int id; uint64_t seed; int steps; int step; int nm; vf_rng r;
    modst_t m[MAXM];
    int quit_code; int loop_ret; int fails;
    char ctxname[16]; char names[MAXM][16];
    long expected_ps[MAXM];
};
static thr_t T[MAXT];
static const char *topics[] = { "alpha", "beta", "gamma" };
static int payload_token[64];

static int task_fn(void *arg) { (void)arg; struct timespec ts = { 0, 200000 }; nanosleep(&ts, NULL); return 7; }

static bool on_start(m_mod_t *self) {
    modst_t *ms = (modst_t *)m_mod_userdata(self);
    thr_t *t = ms->t;
    /* every module: one literal subscription chosen by index + a regex on module 0 */
    m_mod_ps_subscribe(self, topics[ms->idx % 3], 0, ms);
    if (ms->idx == 0) m_mod_ps_subscribe(self, "^ga.*", 0, ms);
    if (pipe2(ms->pipefd, O_NONBLOCK | O_CLOEXEC) == 0) m_mod_src_register_fd(self, ms->pipefd[0], 0, ms);
    if (ms->idx == 0) {
        m_src_tmr_t tm = { CLOCK_MONOTONIC, 1000000 };     /* leader: 1 ms step timer */
        m_mod_src_register_tmr(self, &tm, 0, ms);
    } else if (ms->idx == 1) {
        m_src_tmr_t tm = { CLOCK_MONOTONIC, 1500000 + 100000ULL * (t->id % 5) };
        m_mod_src_register_tmr(self, &tm, 0, ms);
    }
    return true;
}

static void leader_step(thr_t *t) {
    modst_t *L = &t->m[0];
    t->step++;
    int nact = 1 + vf_below(&t->r, 4);
    for (int a = 0; a < nact; a++) {
        int k = vf_below(&t->r, 10);
        int who = vf_below(&t->r, t->nm);
        if (k < 4) {
            int tp = vf_below(&t->r, 3);
            if (m_mod_ps_publish(t->m[who].h, topics[tp], &payload_token[tp], 0) == 0) {
                t->m[who].sent++;
                for (int i = 0; i < t->nm; i++) if (i % 3 == tp || (i == 0 && tp == 2)) t->expected_ps[i]++;
            }
        } else if (k < 6) {
            int to = vf_below(&t->r, t->nm);
            if (m_mod_ps_tell(t->m[who].h, t->m[to].h, &payload_token[10 + to], 0) == 0) { t->m[who].sent++; t->expected_ps[to]++; }
        } else if (k < 7) {
            if (m_mod_ps_publish(t->m[who].h, NULL, &payload_token[20], 0) == 0) { t->m[who].sent++; for (int i = 0; i < t->nm; i++) t->expected_ps[i]++; }
        } else if (k < 9) {
            char c = 'x';
            if (t->m[who].pipefd[1] > 0 && write(t->m[who].pipefd[1], &c, 1) == 1) { /* produces one fd event */ }
        } else if (t->nm > 2) {
            /* task source on the last module (it never stops while looping) */
            static __thread int tid;
            m_src_task_t tk = { ++tid, task_fn };
            m_mod_src_register_task(t->m[t->nm - 1].h, &tk, 0, NULL);
        }
    }
    (void)L;
    if (t->step >= t->steps) m_ctx_quit(t->quit_code);
}

static void on_evt(m_mod_t *self, const m_queue_t *const evts) {
    modst_t *ms = (modst_t *)m_mod_userdata(self);
    thr_t *t = ms->t;
    for (m_queue_itr_t *it = m_queue_itr_new(evts); it; m_queue_itr_next(&it)) {
        const m_evt_t *e = m_queue_itr_get_data(it);
        switch (e->type) {
        case M_SRC_TYPE_PS:
            if (!e->ps_evt->system) {
                ms->recv_ps++;
                /* sender must be a module of this very context */
                bool mine = false;
                for (int i = 0; i < t->nm; i++) if (e->ps_evt->sender == t->m[i].h) mine = true;
                if (!mine) { t->fails++; printf("FAIL C14/foreign-message | context %d module %d received a message whose sender is not one of its context's modules\n", t->id, ms->idx); }
            }
            break;
        case M_SRC_TYPE_FD: { char c; if (read(e->fd_evt->fd, &c, 1) == 1) ms->recv_fd++;
            if (e->fd_evt->fd != ms->pipefd[0]) { t->fails++; printf("FAIL C14/foreign-event | context %d module %d received a descriptor event for fd %d which is not its own\n", t->id, ms->idx, e->fd_evt->fd); }
            break; }
        case M_SRC_TYPE_TMR: ms->recv_tmr++; if (ms->idx == 0) leader_step(t); break;
        case M_SRC_TYPE_TASK: ms->recv_task++; break;
        default: break;
        }
        if (e->userdata != ms && e->type != M_SRC_TYPE_TASK && !(e->type == M_SRC_TYPE_PS && (!e->ps_evt->topic))) {
            t->fails++;
            printf("FAIL C14/foreign-userdata | context %d module %d received an event carrying another module's user data\n", t->id, ms->idx);
        }
    }
}

static void null_logger(const m_mod_t *ref, const char *fmt, va_list args) { (void)ref; (void)fmt; (void)args; }

static void *ctx_thread(void *arg) {
    thr_t *t = arg;
    t->r.s = t->seed;
    snprintf(t->ctxname, sizeof(t->ctxname), "ctx%d", t->id);
    if (m_ctx_register(t->ctxname, vf_chance(&t->r, 1, 2) ? M_CTX_NAME_DUP : 0, NULL) != 0) { printf("FAIL HARNESS/ctx-register | thread %d\n", t->id); return NULL; }
    m_ctx_set_logger(null_logger);
    t->nm = 2 + vf_below(&t->r, MAXM - 1);
    t->quit_code = 10 + t->id;
    m_mod_hook_t hk = { on_start, NULL, on_evt, NULL };
    for (int i = 0; i < t->nm; i++) {
        t->m[i].t = t; t->m[i].idx = i;
        snprintf(t->names[i], sizeof(t->names[i]), "m%d", i);       /* same module names in every context */
        if (m_mod_register(t->names[i], &t->m[i].h, &hk, 0, &t->m[i]) != 0) { printf("FAIL HARNESS/mod-register | thread %d\n", t->id); return NULL; }
        m_mod_start(t->m[i].h);
    }
    t->loop_ret = m_ctx_loop();
    for (int i = 0; i < t->nm; i++) {
        m_mod_t *h = t->m[i].h;
        m_mod_deregister(&t->m[i].h);
        (void)h;
        if (t->m[i].pipefd[0] > 0) { close(t->m[i].pipefd[0]); close(t->m[i].pipefd[1]); }
    }
    m_ctx_deregister();
    return NULL;
}

/* ---------------- foreign-thread call matrix ---------------- */
static pthread_barrier_t bar;
static m_mod_t *victim; static m_mod_t *other_mod;
static __thread const char *covered[64]; static __thread int ncovered;
#include <stdatomic.h>
static atomic_int matrix_fail;
#define EXPECT_FAIL(name, expr) do { covered[ncovered++] = name; long _r = (long)(expr); if (_r >= 0) { matrix_fail++; printf("FAIL C14/foreign-call-accepted | %s called from a thread that does not own the module's context returned %ld (role %s)\n", name, _r, role); } } while (0)
static void evt_noop(m_mod_t *m, const m_queue_t *const q) { (void)m; (void)q; }
static int vict_events;
static atomic_int park_in_cb;
static void evt_victim(m_mod_t *m, const m_queue_t *const q) {
    (void)m; vict_events += (int)m_queue_len(q);
    if (park_in_cb) {
        /* second round of the matrix: the foreign threads call while the owner thread is inside this callback */
        park_in_cb = 0;
        pthread_barrier_wait(&bar);
        pthread_barrier_wait(&bar);
    }
}

static m_mod_t *flipper;          /* a module of the owner's context that keeps changing state while foreign threads read it */
static atomic_int getter_bad;
static void foreign_getters(void) {
    /* the plain getters are the only calls a foreign thread may make: they must be safe against the owner's transitions */
    for (int i = 0; i < 300; i++) {
        m_mod_states st = m_mod_state(flipper);
        if (st != M_MOD_IDLE && st != M_MOD_RUNNING && st != M_MOD_PAUSED && st != M_MOD_STOPPED) getter_bad++;
        (void)m_mod_is(flipper, M_MOD_RUNNING | M_MOD_PAUSED);
        const char *n = m_mod_name(flipper);
        if (!n || strcmp(n, "flipper") != 0) getter_bad++;
        (void)m_mod_userdata(flipper);
    }
}

static void foreign_calls(const char *role, m_mod_t *mine) {
    m_mod_t *v = victim;
    foreign_getters();
    int fdp[2]; if (pipe(fdp) != 0) return;
    m_src_tmr_t tm = { CLOCK_MONOTONIC, 5000000 }; m_src_sgn_t sg = { SIGUSR1 }; m_src_path_t pt = { "/tmp", 256 };
    m_src_pid_t pd = { getpid(), 0 }; m_src_task_t tk = { 1, task_fn }; m_src_thresh_t th = { 5, 0 };
    m_mod_stats_t st;
    ncovered = 0;
    EXPECT_FAIL("m_mod_start", m_mod_start(v));
    EXPECT_FAIL("m_mod_pause", m_mod_pause(v));
    EXPECT_FAIL("m_mod_resume", m_mod_resume(v));
    EXPECT_FAIL("m_mod_stop", m_mod_stop(v));
    { m_mod_t *tmp = v; EXPECT_FAIL("m_mod_deregister", m_mod_deregister(&tmp)); if (tmp != v) { matrix_fail++; printf("FAIL C14/foreign-call-had-effect | m_mod_deregister reset the caller's pointer\n"); } }
    EXPECT_FAIL("m_mod_bind", m_mod_bind(v, v));
    EXPECT_FAIL("m_mod_log", m_mod_log(v, "x"));
    EXPECT_FAIL("m_mod_dump", m_mod_dump(v));
    EXPECT_FAIL("m_mod_stats", m_mod_stats(v, &st));
    { covered[ncovered++] = "m_mod_lookup"; if (m_mod_lookup(v, "victim") != NULL) { matrix_fail++; printf("FAIL C14/foreign-call-accepted | m_mod_lookup from a foreign thread returned a module (role %s)\n", role); } }
    EXPECT_FAIL("m_mod_become", m_mod_become(v, evt_noop));
    EXPECT_FAIL("m_mod_unbecome", m_mod_unbecome(v));
    EXPECT_FAIL("m_mod_ps_tell", m_mod_ps_tell(v, v, &payload_token[0], 0));
    EXPECT_FAIL("m_mod_ps_publish", m_mod_ps_publish(v, "alpha", &payload_token[0], 0));
    EXPECT_FAIL("m_mod_ps_poisonpill", m_mod_ps_poisonpill(v, v));
    EXPECT_FAIL("m_mod_ps_subscribe", m_mod_ps_subscribe(v, "beta", 0, NULL));
    EXPECT_FAIL("m_mod_ps_unsubscribe", m_mod_ps_unsubscribe(v, "alpha"));
    EXPECT_FAIL("m_mod_unstash", m_mod_unstash(v, 1));
    { m_evt_t fake = { 0 }; EXPECT_FAIL("m_mod_stash", m_mod_stash(v, &fake)); }
    EXPECT_FAIL("m_mod_src_len", m_mod_src_len(v, M_SRC_TYPE_END));
    EXPECT_FAIL("m_mod_src_register_fd", m_mod_src_register_fd(v, fdp[0], 0, NULL));
    EXPECT_FAIL("m_mod_src_deregister_fd", m_mod_src_deregister_fd(v, fdp[0]));
    EXPECT_FAIL("m_mod_src_register_tmr", m_mod_src_register_tmr(v, &tm, 0, NULL));
    EXPECT_FAIL("m_mod_src_deregister_tmr", m_mod_src_deregister_tmr(v, &tm));
    EXPECT_FAIL("m_mod_src_register_sgn", m_mod_src_register_sgn(v, &sg, 0, NULL));
    EXPECT_FAIL("m_mod_src_deregister_sgn", m_mod_src_deregister_sgn(v, &sg));
    EXPECT_FAIL("m_mod_src_register_path", m_mod_src_register_path(v, &pt, 0, NULL));
    EXPECT_FAIL("m_mod_src_deregister_path", m_mod_src_deregister_path(v, &pt));
    EXPECT_FAIL("m_mod_src_register_pid", m_mod_src_register_pid(v, &pd, 0, NULL));
    EXPECT_FAIL("m_mod_src_deregister_pid", m_mod_src_deregister_pid(v, &pd));
    EXPECT_FAIL("m_mod_src_register_task", m_mod_src_register_task(v, &tk, 0, NULL));
    EXPECT_FAIL("m_mod_src_deregister_task", m_mod_src_deregister_task(v, &tk));
    EXPECT_FAIL("m_mod_src_register_thresh", m_mod_src_register_thresh(v, &th, 0, NULL));
    EXPECT_FAIL("m_mod_src_deregister_thresh", m_mod_src_deregister_thresh(v, &th));
    EXPECT_FAIL("m_mod_set_batch_size", m_mod_set_batch_size(v, 3));
    EXPECT_FAIL("m_mod_set_batch_timeout", m_mod_set_batch_timeout(v, 1000000));
    EXPECT_FAIL("m_mod_set_tokenbucket", m_mod_set_tokenbucket(v, 10, 2));
    if (mine) {
        /* a message cannot be addressed to a module of another context */
        covered[ncovered++] = "cross-context tell";
        long r1 = m_mod_ps_tell(mine, v, &payload_token[1], 0);
        long r2 = m_mod_ps_poisonpill(mine, v);
        if (r1 >= 0 || r2 >= 0) { matrix_fail++; printf("FAIL C14/cross-context-message-accepted | tell/poisonpill addressed to a module of another context returned %ld/%ld\n", r1, r2); }
    }
    close(fdp[0]); close(fdp[1]);
    for (int i = 0; i < ncovered; i++) printf("COVERED %s %s\n", role, covered[i]);
}

static void *matrix_other_ctx(void *arg) {
    (void)arg;
    m_ctx_register("other", 0, NULL);
    m_ctx_set_logger(null_logger);
    m_mod_hook_t hk = { NULL, NULL, evt_noop, NULL };
    m_mod_register("victim", &other_mod, &hk, 0, NULL);      /* same name as the victim, other context */
    m_mod_start(other_mod);
    pthread_barrier_wait(&bar);      /* owner has built the victim and is parked */
    foreign_calls("holds-another-context", other_mod);
    pthread_barrier_wait(&bar);
    pthread_barrier_wait(&bar);      /* owner is now inside a callback of the victim */
    foreign_calls("holds-another-context/owner-inside-victim-callback", other_mod);
    pthread_barrier_wait(&bar);
    m_mod_deregister(&other_mod);
    m_ctx_deregister();
    return NULL;
}
static void *matrix_no_ctx(void *arg) {
    (void)arg;
    pthread_barrier_wait(&bar);
    foreign_calls("holds-no-context", NULL);
    pthread_barrier_wait(&bar);
    pthread_barrier_wait(&bar);
    foreign_calls("holds-no-context/owner-inside-victim-callback", NULL);
    pthread_barrier_wait(&bar);
    return NULL;
}

static void run_matrix(void) {
    pthread_t a, b;
    pthread_barrier_init(&bar, NULL, 3);
    m_ctx_register("owner", 0, NULL);
    m_ctx_set_logger(null_logger);
    m_mod_hook_t hk = { NULL, NULL, evt_victim, NULL };
    m_mod_register("victim", &victim, &hk, 0, NULL);
    m_mod_start(victim);
    m_mod_ps_subscribe(victim, "alpha", 0, NULL);
    { m_mod_hook_t fk = { NULL, NULL, evt_noop, NULL }; m_mod_register("flipper", &flipper, &fk, 0, NULL); }
    m_mod_stats_t s0, s1; m_mod_stats(victim, &s0);
    ssize_t len0 = m_mod_src_len(victim, M_SRC_TYPE_END);
    pthread_create(&a, NULL, matrix_other_ctx, NULL);
    pthread_create(&b, NULL, matrix_no_ctx, NULL);
    pthread_barrier_wait(&bar);      /* let both foreign threads hammer the victim ... */
    for (int i = 0; i < 100; i++) {  /* ... while the flipper goes through its states */
        m_mod_start(flipper); m_mod_pause(flipper); m_mod_resume(flipper); m_mod_stop(flipper);
    }
    pthread_barrier_wait(&bar);
    if (getter_bad) { matrix_fail++; printf("FAIL C14/getter-inconsistent | a foreign thread read an impossible state or name (%d times) while the owner changed the module's state\n", (int)getter_bad); }
    /* nothing may have changed */
    if (m_mod_state(victim) != M_MOD_RUNNING) { matrix_fail++; printf("FAIL C14/foreign-call-had-effect | victim state is %d after the foreign calls\n", m_mod_state(victim)); }
    if (m_mod_src_len(victim, M_SRC_TYPE_END) != len0) { matrix_fail++; printf("FAIL C14/foreign-call-had-effect | victim source count changed %zd -> %zd\n", len0, m_mod_src_len(victim, M_SRC_TYPE_END)); }
    m_mod_stats(victim, &s1);
    if (s1.sent_msgs != s0.sent_msgs) { matrix_fail++; printf("FAIL C14/foreign-call-had-effect | victim sent counter changed\n"); }
    for (int i = 0; i < 3; i++) m_ctx_dispatch();
    if (vict_events != 0) {
        /* only the loop-started system message could arrive, and the victim is not subscribed to it */
        matrix_fail++; printf("FAIL C14/foreign-call-had-effect | victim received %d events although every foreign call had to fail\n", vict_events);
    }
    /* round two: same matrix while this thread is inside the victim's own event callback */
    vict_events = 0;
    park_in_cb = 1;
    m_mod_ps_tell(victim, victim, &payload_token[2], 0);
    for (int i = 0; i < 50 && park_in_cb; i++) m_ctx_dispatch();
    if (park_in_cb) {
        /* the victim did not get the message its own context sent it: something the foreign threads did took effect
         * (e.g. it was stopped); let them through the second round all the same */
        park_in_cb = 0;
        matrix_fail++; printf("FAIL C14/foreign-call-had-effect | the victim (state %d) no longer receives messages of its own context after the foreign calls\n", m_mod_state(victim));
        pthread_barrier_wait(&bar);
        pthread_barrier_wait(&bar);
    }
    if (m_mod_state(victim) != M_MOD_RUNNING) { matrix_fail++; printf("FAIL C14/foreign-call-had-effect | victim state is %d after the foreign calls made during its callback\n", m_mod_state(victim)); }
    if (m_mod_src_len(victim, M_SRC_TYPE_END) != len0) { matrix_fail++; printf("FAIL C14/foreign-call-had-effect | victim source count changed %zd -> %zd (calls made during its callback)\n", len0, m_mod_src_len(victim, M_SRC_TYPE_END)); }
    for (int i = 0; i < 3; i++) m_ctx_dispatch();
    if (vict_events != 1) { matrix_fail++; printf("FAIL C14/foreign-call-had-effect | victim received %d events, its own context sent it exactly 1\n", vict_events); }
    m_ctx_quit(0); m_ctx_dispatch();
    pthread_join(a, NULL); pthread_join(b, NULL);
    m_mod_deregister(&victim);
    m_mod_deregister(&flipper);
    m_ctx_deregister();
    vf_stat("matrix_runs", 1);
    vf_stat("foreign_getter_calls", 2 * 2 * 300 * 4);
}

/* ---------------- task completion stays inside its context (mode 3) ----------------
 * Context A registers a task, and pauses the task's module while the task function is still running (the source leaves the
 * poll set: its notification descriptor is closed).  Context B, on another thread, then registers a task of its own (opening a
 * descriptor, most likely with the number A's had).  A's function returns first.  B must see exactly one task event, after ITS
 * function returned and carrying ITS return value.  (ASan/plain builds only: a task thread racing with the pause of its own
 * module is the recorded finding task-outlives-its-source, not a question of context independence.) */
#include <semaphore.h>
static sem_t ch_b_start, ch_a_finish, ch_a_go, ch_b_go, ch_b_done;
static atomic_int ch_b_fn_returned, ch_fail;
static int ch_a_events, ch_b_events, ch_b_premature, ch_b_retval, ch_a_retval;
static atomic_int ch_a_runs;
/* (the function is started again when its paused module is resumed: only the first run waits) */
static int ch_fn_a(void *arg) { (void)arg; if (ch_a_runs++ == 0) sem_wait(&ch_a_go); return 7; }
static int ch_fn_b(void *arg) { (void)arg; sem_wait(&ch_b_go); ch_b_fn_returned = 1; return 9; }
static void ch_evt_a(m_mod_t *m, const m_queue_t *const q) {
    (void)m;
    for (m_queue_itr_t *it = m_queue_itr_new(q); it; m_queue_itr_next(&it)) {
        const m_evt_t *e = m_queue_itr_get_data(it);
        if (e->type == M_SRC_TYPE_TASK) { ch_a_events++; ch_a_retval = e->task_evt->retval; }
    }
}
static void ch_evt_b(m_mod_t *m, const m_queue_t *const q) {
    (void)m;
    for (m_queue_itr_t *it = m_queue_itr_new(q); it; m_queue_itr_next(&it)) {
        const m_evt_t *e = m_queue_itr_get_data(it);
        if (e->type == M_SRC_TYPE_TASK) { ch_b_events++; ch_b_retval = e->task_evt->retval; if (!ch_b_fn_returned) ch_b_premature++; }
    }
}
static void ch_sleep_us(long us) { struct timespec ts = { us / 1000000, (us % 1000000) * 1000L }; nanosleep(&ts, NULL); }
static void *ch_thread_a(void *arg) {
    (void)arg;
    m_mod_t *a = NULL, *keep = NULL;
    m_mod_hook_t hk = { NULL, NULL, ch_evt_a, NULL }, hn = { NULL, NULL, evt_noop, NULL };
    if (m_ctx_register("chA", 0, NULL) != 0 || m_mod_register("a", &a, &hk, 0, NULL) != 0 || m_mod_register("keep", &keep, &hn, 0, NULL) != 0) { printf("FAIL HARNESS/choreo-setup | A\n"); ch_fail++; sem_post(&ch_b_start); sem_post(&ch_a_go); return NULL; }
    m_ctx_set_logger(null_logger);
    m_mod_start(a); m_mod_start(keep);
    m_ctx_dispatch();
    m_src_task_t tk = { 1, ch_fn_a };
    int r1 = m_mod_src_register_task(a, &tk, 0, NULL);
    m_ctx_dispatch();
    int r2 = m_mod_pause(a);               /* the task source leaves the poll set while its function is still running */
    if (r1 != 0 || r2 != 0) { printf("FAIL HARNESS/choreo-setup | A task %d pause %d\n", r1, r2); ch_fail++; }
    sem_post(&ch_b_start);
    sem_wait(&ch_a_finish);                /* B has registered its task by now */
    sem_post(&ch_a_go);                    /* A's function returns: its completion is notified ... to whom? */
    ch_sleep_us(3000);
    sem_wait(&ch_b_done);
    m_mod_resume(a);
    for (int i = 0; i < 5; i++) { m_ctx_dispatch(); ch_sleep_us(200); }
    m_ctx_quit(0); m_ctx_dispatch();
    m_mod_deregister(&a); m_mod_deregister(&keep);
    m_ctx_deregister();
    return NULL;
}
static void *ch_thread_b(void *arg) {
    (void)arg;
    m_mod_t *b = NULL;
    m_mod_hook_t hk = { NULL, NULL, ch_evt_b, NULL };
    if (m_ctx_register("chB", 0, NULL) != 0 || m_mod_register("b", &b, &hk, 0, NULL) != 0) { printf("FAIL HARNESS/choreo-setup | B\n"); ch_fail++; sem_post(&ch_a_finish); sem_post(&ch_b_done); sem_post(&ch_b_go); return NULL; }
    m_ctx_set_logger(null_logger);
    m_mod_start(b);
    m_ctx_dispatch();
    sem_wait(&ch_b_start);
    m_src_task_t tk = { 2, ch_fn_b };
    int r = m_mod_src_register_task(b, &tk, 0, NULL);
    if (r != 0) { printf("FAIL HARNESS/choreo-setup | B task %d\n", r); ch_fail++; }
    sem_post(&ch_a_finish);
    for (int i = 0; i < 24; i++) { m_ctx_dispatch(); ch_sleep_us(250); }      /* ~6 ms: A's function has returned meanwhile, B's has not */
    sem_post(&ch_b_go);
    for (int i = 0; i < 8000 && ch_b_events == 0; i++) { m_ctx_dispatch(); ch_sleep_us(250); }     /* (up to 2 s on a loaded machine) */
    for (int i = 0; i < 4; i++) { m_ctx_dispatch(); ch_sleep_us(250); }
    sem_post(&ch_b_done);
    m_ctx_quit(0); m_ctx_dispatch();
    m_mod_deregister(&b);
    m_ctx_deregister();
    return NULL;
}
static int run_choreo(int rounds) {
    int bad = 0, clean = 0, late = 0;
    for (int k = 0; k < rounds; k++) {
        sem_init(&ch_b_start, 0, 0); sem_init(&ch_a_finish, 0, 0); sem_init(&ch_a_go, 0, 0); sem_init(&ch_b_go, 0, 0); sem_init(&ch_b_done, 0, 0);
        ch_b_fn_returned = 0; ch_a_runs = 0; ch_a_events = ch_b_events = ch_b_premature = 0; ch_b_retval = ch_a_retval = -1;
        pthread_t ta, tb;
        pthread_create(&ta, NULL, ch_thread_a, NULL); pthread_create(&tb, NULL, ch_thread_b, NULL);
        pthread_join(tb, NULL); pthread_join(ta, NULL);
        if (ch_fail) return 2;
        if (!ch_b_premature && ch_b_events == 0) { late++; continue; }      /* B's own event did not make it in time: no verdict */
        if (ch_b_premature || ch_b_events != 1 || ch_b_retval != 9) {
            bad++;
            printf("FAIL C14/foreign-task-completion | round %d: context B registered one task returning 9 and saw %d task event(s), %d of them before its task function had returned, last return value %d: the completion of a task of context A (whose module was paused while the task ran) was notified to context B\n", k, ch_b_events, ch_b_premature, ch_b_retval);
        } else clean++;
    }
    vf_stat("choreographed_task_rounds", rounds);
    vf_stat("choreographed_task_rounds_clean", clean);
    vf_stat("choreographed_task_rounds_without_verdict", late);
    printf("SIG %016llx\n", (unsigned long long)(0xc14c14ULL + rounds));
    return bad ? 1 : 0;
}

int main(int argc, char **argv) {
    uint64_t seed = argc > 1 ? strtoull(argv[1], NULL, 0) : 1;
    int nt = argc > 2 ? atoi(argv[2]) : 4;
    int steps = argc > 3 ? atoi(argv[3]) : 20;
    int mode = argc > 4 ? atoi(argv[4]) : 0;
    setvbuf(stdout, NULL, _IOLBF, 0);
    signal(SIGPIPE, SIG_IGN);
    if (nt > MAXT) nt = MAXT;
    if (mode == 2) { run_matrix(); return matrix_fail ? 1 : 0; }
    if (mode == 3) return run_choreo(steps);
    pthread_t th[MAXT];
    for (int i = 0; i < nt; i++) { memset(&T[i], 0, sizeof(T[i])); T[i].id = i; T[i].seed = seed * 7919 + 31 * i + 1; T[i].steps = steps; }
    if (mode == 0) {
        for (int i = 0; i < nt; i++) pthread_create(&th[i], NULL, ctx_thread, &T[i]);
        for (int i = 0; i < nt; i++) pthread_join(th[i], NULL);
    } else {
        for (int i = 0; i < nt; i++) { pthread_create(&th[i], NULL, ctx_thread, &T[i]); pthread_join(th[i], NULL); }
    }
    int fails = 0;
    for (int i = 0; i < nt; i++) {
        thr_t *t = &T[i];
        fails += t->fails;
        if (t->loop_ret != t->quit_code) { fails++; printf("FAIL C14/wrong-loop-result | context %d loop returned %d, requested %d\n", i, t->loop_ret, t->quit_code); }
        for (int m = 0; m < t->nm; m++) {
            printf("CTX %d %d sent=%ld recv_ps=%ld expected_ps=%ld recv_fd=%ld steps=%d\n", i, m, t->m[m].sent, t->m[m].recv_ps, t->expected_ps[m], t->m[m].recv_fd, t->step);
            if (t->m[m].recv_ps != t->expected_ps[m]) { fails++; printf("FAIL C14/context-interference | context %d module %d received %ld messages, its own context's deterministic program sends it %ld\n", i, m, t->m[m].recv_ps, t->expected_ps[m]); }
        }
    }
    vf_stat("contexts", nt);
    return fails ? 1 : 0;
}

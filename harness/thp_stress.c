/* C06 — thread pool stress with hook-driven delay injection, spurious wake-ups, stamps, gauge,
 * pool-touched-after-free monitor and a quiescence based deadlock detector.
 * usage: thp_stress <seed> <nruns> [flavour_mask]
 * Every run: one pool configuration; verdicts are printed with the configuration and the seed.
 */
#define FEDEDP_VERIF_HOOK_IMPL
#include "vfh.h"
#include <sys/syscall.h>
#include "mem.h"
#include <stdatomic.h>
#include <dirent.h>
#include <time.h>
#include <sched.h>
#include <module/thpool/thpool.h>
#include "verif_hooks.h"

void fededp_verif_thpool_kick(m_thpool_t *pool);

#define MAXT 512
#define MAXSUB 8

typedef struct {
    atomic_int exec;
    atomic_ullong start_stamp, finish_stamp;
    atomic_int accepted;            /* m_thpool_add returned 0 */
    atomic_ullong add_ret_stamp;    /* stamp right after add returned */
    atomic_ullong add_call_stamp;
    int profile;                    /* 0 instant 1 yield 2 short sleep 3 longer sleep */
    int spawns;                     /* submits one follow-up task to its own pool while it runs */
} task_t;

static task_t T[MAXT];
static atomic_ullong clk;                 /* logical clock */
static atomic_ullong progress;            /* bumped by every hook / task / harness step */
static atomic_int gauge, gauge_max;
static atomic_ullong free_ret_stamp;      /* 0 while pool alive */
static atomic_uintptr_t cur_pool;         /* address of the pool under test (never dereferenced by monitors) */
static atomic_int pool_dead;              /* set once m_thpool_free returned */
static atomic_int touched_after_free;     /* hook event (worker side) seen after free returned */
static atomic_int touched_point;
static atomic_ullong ev_hash;             /* interleaving signature */
static atomic_ullong n_events, n_spurious, n_lazy_created, n_delays;
static atomic_int obligations_open;       /* harness is inside a call that must return (join / free / add) */
static const char *phase = "";

static atomic_ullong g_seed;
static atomic_int delay_prob[16];                /* per hook point, per mille */
static __thread vf_rng trng;
static __thread int trole;                /* 0 unknown(worker) 1 submitter 2 freer 3 chaos */
static atomic_int thread_ctr;

static char cfg_txt[320];
static _Atomic(m_thpool_t *) g_pool;      /* pool under test, for tasks that submit follow-up work to their own pool */
static int n_parents;                     /* tasks [0, n_parents) may spawn the child task n_parents + i */
static atomic_ullong n_spawned, n_spawn_refused;
/* fault injection: pthread_create fails with EAGAIN inside m_thpool_new / m_thpool_add (linked with --wrap=pthread_create) */
static __thread int in_pool_call;
static atomic_int create_fail_permille;
static atomic_ullong n_create_failed;
int __real_pthread_create(pthread_t *th, const pthread_attr_t *attr, void *(*fn)(void *), void *arg);
int __wrap_pthread_create(pthread_t *th, const pthread_attr_t *attr, void *(*fn)(void *), void *arg) {
    if (in_pool_call) {
        int p = atomic_load(&create_fail_permille);
        if (!trng.s) trng.s = g_seed * 7919 + 104729ULL * (unsigned)atomic_fetch_add(&thread_ctr, 1) + 1;
        if (p && (int)vf_below(&trng, 1000) < p) { atomic_fetch_add(&n_create_failed, 1); return EAGAIN; }
    }
    return __real_pthread_create(th, attr, fn, arg);
}

static inline unsigned long long stamp(void) { return atomic_fetch_add(&clk, 1) + 1; }

static void maybe_delay(int point) {
    if (!trng.s) trng.s = g_seed * 7919 + 104729ULL * (unsigned)atomic_fetch_add(&thread_ctr, 1) + 1;
    int p = atomic_load(&delay_prob[point & 15]);
    if (p && (int)vf_below(&trng, 1000) < p) {
        atomic_fetch_add(&n_delays, 1);
        switch (vf_below(&trng, 4)) {
        case 0: sched_yield(); break;
        case 1: { struct timespec ts = { 0, 1000 * (1 + vf_below(&trng, 50)) }; nanosleep(&ts, NULL); break; }
        case 2: { struct timespec ts = { 0, 1000 * (50 + vf_below(&trng, 400)) }; nanosleep(&ts, NULL); break; }
        default: for (volatile int i = 0; i < 200 + (int)vf_below(&trng, 2000); i++); break;
        }
    }
}

/* strong definition: overrides the weak no-op of the library */
void fededp_verif_point(int id, const void *obj) {
    unsigned long long s = stamp();
    atomic_fetch_add(&progress, 1);
    atomic_fetch_add(&n_events, 1);
    /* order-sensitive signature of the event sequence: (point, role) folded in stamp order (approximately) */
    unsigned long long h = atomic_load(&ev_hash);
    atomic_store(&ev_hash, vf_mix(h, (unsigned)id * 8 + trole));
    if (id == VP_THPOOL_THREAD_CREATED) atomic_fetch_add(&n_lazy_created, 1);
    if ((uintptr_t)obj == atomic_load(&cur_pool) && atomic_load(&pool_dead) && s > atomic_load(&free_ret_stamp)) {
        /* worker-side points other than EXIT are adjacent to pool accesses */
        if (id >= VP_THPOOL_WORKER_TOP && id <= VP_THPOOL_WORKER_TASK_DONE) {
            atomic_store(&touched_point, id);
            atomic_store(&touched_after_free, 1);
        }
    }
    maybe_delay(id);
}

static void *task_fn(void *arg) {
    task_t *t = arg;
    if (t < T || t >= T + MAXT) { vf_fail("C06/wrong-argument", "task invoked with %p which was never submitted | %s", arg, cfg_txt); return NULL; }
    atomic_store(&t->start_stamp, stamp());
    int g = atomic_fetch_add(&gauge, 1) + 1;
    int m = atomic_load(&gauge_max);
    while (g > m && !atomic_compare_exchange_weak(&gauge_max, &m, g));
    atomic_fetch_add(&t->exec, 1);
    atomic_fetch_add(&progress, 1);
    if (t->spawns) {
        /* follow-up work submitted by a task to its own pool: accepted (then it runs under the usual rules) or refused
         * because the pool is shutting down - the pool is alive either way, this task has not completed yet */
        task_t *c = &T[n_parents + (int)(t - T)];
        m_thpool_t *pl = atomic_load(&g_pool);
        atomic_store(&c->add_call_stamp, stamp());
        in_pool_call = 1;
        int r = pl ? m_thpool_add(pl, task_fn, c) : -1;
        in_pool_call = 0;
        atomic_store(&c->add_ret_stamp, stamp());
        atomic_store(&c->accepted, r == 0);
        if (r == 0) atomic_fetch_add(&n_spawned, 1); else atomic_fetch_add(&n_spawn_refused, 1);
    }
    switch (t->profile) {
    case 1: sched_yield(); break;
    case 2: { struct timespec ts = { 0, 20000 }; nanosleep(&ts, NULL); break; }
    case 3: { struct timespec ts = { 0, 600000 }; nanosleep(&ts, NULL); break; }
    default: break;
    }
    atomic_fetch_sub(&gauge, 1);
    atomic_store(&t->finish_stamp, stamp());
    atomic_fetch_add(&progress, 1);
    return NULL;
}

typedef struct { m_thpool_t *pool; int first, count; int do_len; } sub_t;
static void *submitter(void *arg) {
    sub_t *s = arg;
    trole = 1;
    for (int i = s->first; i < s->first + s->count; i++) {
        atomic_store(&T[i].add_call_stamp, stamp());
        in_pool_call = 1;
        int r = m_thpool_add(s->pool, task_fn, &T[i]);
        in_pool_call = 0;
        atomic_store(&T[i].add_ret_stamp, stamp());
        atomic_store(&T[i].accepted, r == 0);
        atomic_fetch_add(&progress, 1);
        /* (with thread creation failing a lazy pool may refuse the task: it then must never run, and the pool must stay usable) */
        if (r != 0 && !(atomic_load(&create_fail_permille) && r == EAGAIN)) vf_fail("C06/add-refused", "m_thpool_add returned %d on a live pool | %s", r, cfg_txt);
        if (s->do_len && (i & 3) == 0) {
            ssize_t l = m_thpool_length(s->pool);
            if (l < 0) vf_fail("C06/length-error", "m_thpool_length returned %zd on a live pool | %s", l, cfg_txt);
        }
    }
    return NULL;
}

static atomic_int chaos_run, chaos_parked;
static void *chaos(void *arg) {
    m_thpool_t *pool = arg;
    trole = 3;
    vf_rng r = { g_seed ^ 0xC4A05 };
    while (atomic_load(&chaos_run)) {
        fededp_verif_thpool_kick(pool);
        atomic_fetch_add(&n_spurious, 1);
        struct timespec ts = { 0, 1000 * (5 + vf_below(&r, 300)) };
        nanosleep(&ts, NULL);
    }
    atomic_store(&chaos_parked, 1);
    return NULL;
}

/* ---- deadlock detector: logical criterion ---- */
static bool all_threads_sleeping(void) {
    DIR *d = opendir("/proc/self/task");
    if (!d) return false;
    struct dirent *e; bool all = true; pid_t self = (pid_t)syscall(SYS_gettid);
    while ((e = readdir(d))) {
        if (e->d_name[0] == '.') continue;
        if (atoi(e->d_name) == self) continue;
        char p[128], buf[512];
        snprintf(p, sizeof(p), "/proc/self/task/%s/stat", e->d_name);
        FILE *f = fopen(p, "r");
        if (!f) continue;
        size_t n = fread(buf, 1, sizeof(buf) - 1, f); buf[n] = 0; fclose(f);
        char *rp = strrchr(buf, ')');
        if (rp && rp[1] == ' ' && rp[2] != 'S') { all = false; break; }
    }
    closedir(d);
    return all;
}
static atomic_int detector_run;
static void *detector(void *arg) {
    (void)arg;
    unsigned long long last = 0; int same = 0;
    while (atomic_load(&detector_run)) {
        struct timespec ts = { 0, 100 * 1000 * 1000 };
        nanosleep(&ts, NULL);
        unsigned long long p = atomic_load(&progress);
        if (p == last && atomic_load(&obligations_open)) {
            if (all_threads_sleeping()) same++; else same = 0;
            if (same >= 5) {
                vf_fail("C06/deadlock", "no progress over 5 samples, every thread asleep, while the harness waits in '%s' | %s", phase, cfg_txt);
            }
        } else same = 0;
        last = p;
    }
    return NULL;
}

static long long st_new_failed, st_runs, st_frees_overlapping_tasks, st_discarded, st_tasks;

static void one_run(uint64_t seed, int flavour_mask) {
    vf_rng r = { seed };
    atomic_store(&g_seed, seed);
    int threads = 1 + vf_below(&r, 8);
    int flav;
    do { flav = vf_below(&r, 4); } while (!((flavour_mask >> flav) & 1));
    int flags = (flav & 1 ? M_THPOOL_LAZY : 0) | (flav & 2 ? M_THPOOL_DETACHED : 0);
    int nsub = 1 + vf_below(&r, 6);
    int ntasks = vf_below(&r, 65);
    if (vf_chance(&r, 1, 8)) ntasks = vf_below(&r, 3);
    bool wait_all = vf_chance(&r, 1, 2);
    bool use_clear = vf_chance(&r, 1, 6);
    bool use_chaos = vf_chance(&r, 2, 3);
    bool join_before_free = true;   /* documented contract: no concurrent use while freeing */
    int profmix = vf_below(&r, 5);
    bool nodelay = vf_chance(&r, 1, 5);
    bool spawners = vf_chance(&r, 1, 3);
    int fail_pm = vf_chance(&r, 1, 5) ? 100 + (int)vf_below(&r, 500) : 0;
    if (spawners && ntasks > MAXT / 2 - 1) ntasks = MAXT / 2 - 1;
    for (int i = 0; i < 16; i++) atomic_store(&delay_prob[i], (nodelay || vf_chance(&r, 1, 2)) ? 0 : (int)vf_below(&r, 400));
    snprintf(cfg_txt, sizeof(cfg_txt), "seed=%llu threads=%d flags=%s%s submitters=%d tasks=%d wait_all=%d clear=%d chaos=%d profmix=%d spawners=%d create_fail=%d/1000",
             (unsigned long long)seed, threads, flags & M_THPOOL_LAZY ? "LAZY" : "eager", flags & M_THPOOL_DETACHED ? "+DETACHED" : "", nsub, ntasks, wait_all, use_clear, use_chaos, profmix, spawners, fail_pm);

    memset(T, 0, sizeof(T));
    for (int i = 0; i < ntasks; i++) T[i].profile = profmix == 4 ? (int)vf_below(&r, 4) : profmix == 3 ? (vf_chance(&r, 1, 6) ? 3 : 0) : profmix;
    n_parents = ntasks;
    if (spawners) for (int i = 0; i < ntasks; i++) { T[i].spawns = vf_chance(&r, 1, 2); T[ntasks + i].profile = (int)vf_below(&r, 3); }
    const int nall = spawners ? 2 * ntasks : ntasks;
    atomic_store(&create_fail_permille, fail_pm);
    atomic_store(&gauge, 0); atomic_store(&gauge_max, 0);
    atomic_store(&free_ret_stamp, 0); atomic_store(&pool_dead, 0); atomic_store(&touched_after_free, 0);
    atomic_store(&ev_hash, seed & 0xff);
    trole = 2;

#ifndef VF_NO_LEDGER
    size_t live0 = vf_live();
#endif
    phase = "new";
    atomic_store(&obligations_open, 1);
    in_pool_call = 1;
    m_thpool_t *pool = m_thpool_new(threads, flags);
    in_pool_call = 0;
    atomic_store(&obligations_open, 0);
    if (!pool) {
        if (!fail_pm) { vf_fail("C06/new-null", "m_thpool_new returned NULL | %s", cfg_txt); return; }
        /* thread creation failed half-way: the pool is given up; nothing may be left behind (workers, memory) */
        struct timespec gr0 = { 0, 2000000 }; nanosleep(&gr0, NULL);
#ifndef VF_NO_LEDGER
        if (vf_live() != live0) { vf_live_since(0, 4); vf_fail("C06/leak", "%zu allocations outstanding after a failed m_thpool_new | %s", vf_live() - live0, cfg_txt); }
#endif
        st_new_failed++; st_runs++;
        atomic_store(&create_fail_permille, 0);
        return;
    }
    atomic_store(&cur_pool, (uintptr_t)pool);
    atomic_store(&g_pool, pool);

    pthread_t chaos_th; atomic_store(&chaos_run, use_chaos); atomic_store(&chaos_parked, 0);
    if (use_chaos) pthread_create(&chaos_th, NULL, chaos, pool);

    /* submit */
    pthread_t sth[MAXSUB]; sub_t sa[MAXSUB];
    int per = nsub ? ntasks / nsub : 0, first = 0;
    unsigned long long clear_call = 0, clear_ret = 0;
    atomic_store(&obligations_open, 1);
    phase = "submit";
    for (int i = 0; i < nsub; i++) {
        int cnt = i == nsub - 1 ? ntasks - first : per;
        sa[i] = (sub_t){ pool, first, cnt, vf_chance(&r, 1, 3) };
        first += cnt;
        pthread_create(&sth[i], NULL, submitter, &sa[i]);
    }
    if (use_clear) {
        struct timespec ts = { 0, 1000 * vf_below(&r, 300) }; nanosleep(&ts, NULL);
        clear_call = stamp();
        ssize_t cr = m_thpool_clear(pool);
        clear_ret = stamp();
        (void)cr;
    }
    if (join_before_free) for (int i = 0; i < nsub; i++) pthread_join(sth[i], NULL);
    if (vf_chance(&r, 1, 3)) { struct timespec ts = { 0, 1000 * vf_below(&r, 400) }; nanosleep(&ts, NULL); }
    if (use_chaos) { atomic_store(&chaos_run, 0); pthread_join(chaos_th, NULL); }

    /* free */
    phase = wait_all ? "m_thpool_free(wait_all)" : "m_thpool_free(!wait_all)";
    int running_at_free = atomic_load(&gauge);
    int fr = m_thpool_free(&pool, wait_all);
    unsigned long long F = stamp();
    atomic_store(&g_pool, NULL);
    atomic_store(&create_fail_permille, 0);
    atomic_store(&free_ret_stamp, F);
    atomic_store(&pool_dead, 1);
    atomic_store(&obligations_open, 0);
    phase = "verify";
    if (fr != 0 || pool != NULL) vf_fail("C06/free-ret", "m_thpool_free returned %d, pointer %p | %s", fr, (void *)pool, cfg_txt);
    if (running_at_free) st_frees_overlapping_tasks++;

    /* verdicts at the moment free returned */
    int snap_exec[MAXT]; unsigned long long snap_fin[MAXT], snap_start[MAXT];
    for (int i = 0; i < nall; i++) { snap_exec[i] = atomic_load(&T[i].exec); snap_fin[i] = atomic_load(&T[i].finish_stamp); snap_start[i] = atomic_load(&T[i].start_stamp); }
    for (int i = 0; i < nall; i++) {
        bool maybe_cleared = use_clear && atomic_load(&T[i].add_call_stamp) < clear_ret;
        if (snap_exec[i] && !atomic_load(&T[i].accepted) && atomic_load(&T[i].add_ret_stamp)) vf_fail("C06/refused-task-ran", "task %d ran although m_thpool_add had refused it | %s", i, cfg_txt);
        (void)clear_call;
        if (snap_exec[i] > 1) vf_fail("C06/task-ran-twice", "task %d executed %d times | %s", i, snap_exec[i], cfg_txt);
        if (wait_all && atomic_load(&T[i].accepted) && !maybe_cleared) {
            if (snap_exec[i] != 1) vf_fail("C06/waitall-task-not-run", "free(wait_all) returned but accepted task %d ran %d times | %s", i, snap_exec[i], cfg_txt);
            else if (!snap_fin[i] || snap_fin[i] > F) vf_fail("C06/waitall-task-unfinished", "free(wait_all) returned (stamp %llu) before task %d finished (finish stamp %llu) | %s", F, i, snap_fin[i], cfg_txt);
        }
        if (snap_start[i] && snap_start[i] < F && (!snap_fin[i] || snap_fin[i] > F)) vf_fail("C06/free-returned-with-task-running", "free returned (stamp %llu) while task %d, started at %llu, had not completed | %s", F, i, snap_start[i], cfg_txt);
    }
    if (atomic_load(&gauge_max) > threads) vf_fail("C06/too-many-concurrent-tasks", "%d tasks ran concurrently on a pool of %d threads | %s", atomic_load(&gauge_max), threads, cfg_txt);

    /* grace period: nothing may start, nothing of the pool may be touched after free returned */
    struct timespec gr = { 0, (flags & M_THPOOL_DETACHED) ? 3000000 : 300000 };
    nanosleep(&gr, NULL);
    int discarded = 0;
    for (int i = 0; i < nall; i++) {
        unsigned long long ss = atomic_load(&T[i].start_stamp);
        if (ss > F) vf_fail("C06/task-started-after-free", "task %d started (stamp %llu) after free returned (stamp %llu) | %s", i, ss, F, cfg_txt);
        if (atomic_load(&T[i].exec) > 1) vf_fail("C06/task-ran-twice", "task %d executed %d times | %s", i, atomic_load(&T[i].exec), cfg_txt);
        if (atomic_load(&T[i].exec) == 0) discarded++;
    }
    st_discarded += discarded;
    if (atomic_load(&touched_after_free)) vf_fail("C06/pool-touched-after-free", "a pool thread passed hook point %d (adjacent to pool accesses) after m_thpool_free had returned | %s", atomic_load(&touched_point), cfg_txt);
#ifndef VF_NO_LEDGER
    if (!(flags & M_THPOOL_DETACHED) || 1) {
        if (vf_live() != live0) { vf_live_since(0, 4); vf_fail("C06/leak", "%zu allocations outstanding after m_thpool_free | %s", vf_live() - live0, cfg_txt); }
    }
#endif
    st_runs++; st_tasks += nall;
    vf_sig(vf_mix(atomic_load(&ev_hash), threads * 64 + flav * 16 + nsub));
}

int main(int argc, char **argv) {
    uint64_t seed = argc > 1 ? strtoull(argv[1], NULL, 0) : 1;
    int nruns = argc > 2 ? atoi(argv[2]) : 50;
    int mask = argc > 3 ? atoi(argv[3]) : 15;
    setvbuf(stdout, NULL, _IOFBF, 1 << 16);
#ifndef VF_NO_LEDGER
    memhook._malloc = vf_malloc; memhook._calloc = vf_calloc; memhook._free = vf_free;
#endif
    pthread_t det; atomic_store(&detector_run, 1);
    pthread_create(&det, NULL, detector, NULL);
    for (int i = 0; i < nruns; i++) {
        one_run(seed * 1000003ULL + i, mask);
        if (i < 3) printf("SAMPLE %s events=%llu\n", cfg_txt, (unsigned long long)atomic_load(&n_events));
    }
    atomic_store(&detector_run, 0);
    pthread_join(det, NULL);
    vf_stat("runs", st_runs);
    vf_stat("tasks", st_tasks);
    vf_stat("hook_events", (long long)atomic_load(&n_events));
    vf_stat("injected_delays", (long long)atomic_load(&n_delays));
    vf_stat("spurious_broadcasts", (long long)atomic_load(&n_spurious));
    vf_stat("worker_threads_created", (long long)atomic_load(&n_lazy_created));
    vf_stat("frees_overlapping_running_tasks", st_frees_overlapping_tasks);
    vf_stat("tasks_discarded_or_cleared", st_discarded);
    vf_stat("follow_up_tasks_accepted_from_inside_tasks", (long long)atomic_load(&n_spawned));
    vf_stat("follow_up_tasks_refused_pool_shutting_down", (long long)atomic_load(&n_spawn_refused));
    vf_stat("injected_thread_creation_failures", (long long)atomic_load(&n_create_failed));
    vf_stat("pool_creations_failed_by_injection", st_new_failed);
    fflush(stdout);
    return vf_fail_count ? 1 : 0;
}

/* C12 — queue / stack / list against plain-array models, exhaustive short programs + random long ones.
 * usage: structs_lqs <seed> <exh_len> <nrand> <rand_maxops>
 *
 * Model: array of element ids in *container order* (queue: head first; stack: top first; list: head first).
 * After every operation the real container is dumped with its iterate() callback and compared with the model,
 * and the destructor log of the operation is compared (as a multiset of element identities) with what the
 * model says was dropped.
 */
#include "vfh.h"
#include <module/structs/itr.h>

#define MAXE 4096
#define MAXN 512

typedef struct { int id; int key; } elem_t;
static elem_t E[MAXE];
static int n_elems;

enum kind { Q, S, L, LC /* list with comparator */, LN /* list with a comparator that never reports equality: pointer identity must still work */ };
static const char *kname[] = { "queue", "stack", "list", "list+cmp", "list+nevercmp" };

typedef struct {
    enum kind k;
    bool with_dtor;
    m_queue_t *q; m_stack_t *s; m_list_t *l;
    int model[MAXN]; int n;
} cont_t;

/* destructor log */
static int dlog[MAXE]; static int ndlog;
static void dtor_cb(void *p) {
    elem_t *e = p;
    if (e < E || e >= E + MAXE) { vf_fail("C12/dtor-foreign-pointer", "destructor called with %p", p); return; }
    if (ndlog < MAXE) dlog[ndlog++] = e->id;
}
static int cmp_cb(void *a, void *b) { return ((elem_t *)a)->key - ((elem_t *)b)->key; }
static int never_cb(void *a, void *b) { (void)a; (void)b; return 1; }

static char prog_txt[8192]; static int prog_len;
static unsigned long long cur_seed;
static void ptxt(const char *fmt, ...) {
    va_list ap; va_start(ap, fmt);
    if (prog_len < (int)sizeof(prog_txt) - 64) prog_len += vsnprintf(prog_txt + prog_len, sizeof(prog_txt) - prog_len, fmt, ap);
    va_end(ap);
}
#define BAD(key, ...) do { char _b[600]; snprintf(_b, sizeof(_b), __VA_ARGS__); vf_fail(key, "%s seed=%llu dtor=%d: %s | program: %s", kname[c->k], cur_seed, c->with_dtor, _b, prog_txt); } while (0)

static long long st_ops, st_itr_rm_last, st_itr_rm_first, st_itr_rm_mid, st_itr_set, st_itr_ins, st_after_itr_edit_ops, st_dtor, st_itr_rm_twice_list, st_itr_ins_after_rm;

/* --- adapters --- */
static ssize_t c_len(cont_t *c) { return c->k == Q ? m_queue_len(c->q) : c->k == S ? m_stack_len(c->s) : m_list_len(c->l); }
static int dump_buf[MAXN]; static int ndump;
static int dump_cb(void *up, void *data) { (void)up; if (ndump < MAXN) dump_buf[ndump++] = ((elem_t *)data)->id; return 0; }
static void c_dump(cont_t *c) {
    ndump = 0;
    int r;
    if (c->k == Q) r = m_queue_iterate(c->q, dump_cb, NULL);
    else if (c->k == S) r = m_stack_iterate(c->s, dump_cb, NULL);
    else r = m_list_iterate(c->l, dump_cb, NULL);
    if (c->n == 0) { if (r >= 0 && ndump) BAD("C12/iterate-on-empty", "iterate yielded %d elements on empty container", ndump); }
    else if (r != 0) BAD("C12/iterate-ret", "iterate returned %d on container of %d", r, c->n);
}

static void expect_dtor(cont_t *c, const int *ids, int n, const char *what) {
    if (!c->with_dtor) n = 0;
    bool ok = ndlog == n;
    if (ok) {
        /* multiset comparison */
        bool used[MAXN] = {0};
        for (int i = 0; i < n && ok; i++) {
            bool f = false;
            for (int j = 0; j < ndlog; j++) if (!used[j] && dlog[j] == ids[i]) { used[j] = true; f = true; break; }
            ok = f;
        }
    }
    if (!ok) {
        char a[200] = "", b[200] = ""; int la = 0, lb = 0;
        for (int i = 0; i < n && la < 180; i++) la += snprintf(a + la, sizeof(a) - la, "%d ", ids[i]);
        for (int i = 0; i < ndlog && lb < 180; i++) lb += snprintf(b + lb, sizeof(b) - lb, "%d ", dlog[i]);
        BAD("C12/destructor-mismatch", "%s: destructor expected for elements [%s] but ran for [%s]", what, a, b);
    }
    st_dtor += ndlog;
    ndlog = 0;
}

static void verify(cont_t *c, const char *what) {
    ssize_t len = c_len(c);
    if (len != c->n) BAD("C12/len-mismatch", "after %s: len=%zd model=%d", what, len, c->n);
    c_dump(c);
    bool ok = ndump == c->n;
    for (int i = 0; ok && i < c->n; i++) ok = dump_buf[i] == c->model[i];
    if (!ok) {
        char a[300] = "", b[300] = ""; int la = 0, lb = 0;
        for (int i = 0; i < c->n && la < 280; i++) la += snprintf(a + la, sizeof(a) - la, "%d ", c->model[i]);
        for (int i = 0; i < ndump && lb < 280; i++) lb += snprintf(b + lb, sizeof(b) - lb, "%d ", dump_buf[i]);
        BAD("C12/content-mismatch", "after %s: container holds [%s] model says [%s]", what, b, a);
    }
}

static elem_t *new_elem(int key) {
    if (n_elems >= MAXE) return NULL;
    elem_t *e = &E[n_elems];
    e->id = n_elems++;
    e->key = key;
    return e;
}

static void m_insert_at(cont_t *c, int pos, int id) {
    memmove(&c->model[pos + 1], &c->model[pos], (c->n - pos) * sizeof(int));
    c->model[pos] = id; c->n++;
}
static int m_remove_at(cont_t *c, int pos) {
    int id = c->model[pos];
    memmove(&c->model[pos], &c->model[pos + 1], (c->n - pos - 1) * sizeof(int));
    c->n--;
    return id;
}

/* --- basic ops --- */
static void op_add(cont_t *c, int key) {
    if (c->n >= MAXN - 2) return;
    elem_t *e = new_elem(key);
    if (!e) return;
    ptxt("add(e%d k%d) ", e->id, key);
    int r;
    if (c->k == Q) { r = m_queue_enqueue(c->q, e); if (r == 0) m_insert_at(c, c->n, e->id); }
    else if (c->k == S) { r = m_stack_push(c->s, e); if (r == 0) m_insert_at(c, 0, e->id); }
    else {
        int before[MAXN]; int nb = c->n; memcpy(before, c->model, sizeof(int) * nb);
        r = m_list_insert(c->l, e);
        if (r == 0) {
            /* insertion position is not part of the property: learn it from the container, then require that
             * the relative order of all other elements is untouched */
            ndump = 0; m_list_iterate(c->l, dump_cb, NULL);
            int pos = -1;
            for (int i = 0; i < ndump; i++) if (dump_buf[i] == e->id) { pos = i; break; }
            if (pos < 0 || ndump != nb + 1) { c->n = nb; BAD("C12/insert-lost", "inserted element e%d not found (container has %d, expected %d)", e->id, ndump, nb + 1); return; }
            m_insert_at(c, pos, e->id);
        }
    }
    if (r != 0) BAD("C12/add-failed", "add returned %d", r);
    expect_dtor(c, NULL, 0, "add");
    verify(c, "add");
}

static void op_take(cont_t *c) {  /* dequeue / pop: element handed back, no destructor */
    if (c->k >= L) return;
    ptxt("take ");
    void *p = c->k == Q ? m_queue_dequeue(c->q) : m_stack_pop(c->s);
    if (c->n == 0) { if (p) BAD("C12/take-from-empty", "returned %p", p); }
    else {
        int id = m_remove_at(c, 0);
        if (!p || ((elem_t *)p)->id != id) BAD("C12/order", "take returned e%d, model expects e%d", p ? ((elem_t *)p)->id : -1, id);
    }
    expect_dtor(c, NULL, 0, "take (element handed back to the caller)");
    verify(c, "take");
}

static void op_peek(cont_t *c, vf_rng *r) {
    if (c->k < L) {
        ptxt("peek ");
        void *p = c->k == Q ? m_queue_peek(c->q) : m_stack_peek(c->s);
        if (c->n == 0) { if (p) BAD("C12/peek-empty", "returned %p", p); }
        else if (!p || ((elem_t *)p)->id != c->model[0]) BAD("C12/order", "peek returned e%d, model expects e%d", p ? ((elem_t *)p)->id : -1, c->model[0]);
    } else {
        /* list find: by pointer (existing or absent element) or by key */
        elem_t probe = { -1, (int)vf_below(r, 4) };
        void *arg; int expect = -1;
        if (c->n && vf_chance(r, 1, 2)) {
            int pos = vf_below(r, c->n);
            arg = &E[c->model[pos]];
            if (c->k == LC) { for (int i = 0; i < c->n; i++) if (E[c->model[i]].key == E[c->model[pos]].key) { expect = c->model[i]; break; } }
            else expect = c->model[pos];
            ptxt("find(e%d) ", c->model[pos]);
        } else {
            arg = &probe;
            if (c->k == LC) for (int i = 0; i < c->n; i++) if (E[c->model[i]].key == probe.key) { expect = c->model[i]; break; }
            ptxt("find(k%d) ", probe.key);
        }
        void *p = m_list_find(c->l, arg);
        int got = p ? ((elem_t *)p)->id : -1;
        if (got != expect) BAD("C12/find", "find returned e%d, model expects e%d", got, expect);
    }
    expect_dtor(c, NULL, 0, "peek/find");
}

static void op_remove(cont_t *c, vf_rng *r) {
    if (c->k < L) {
        ptxt("remove ");
        int ret = c->k == Q ? m_queue_remove(c->q) : m_stack_remove(c->s);
        if (c->n == 0) { if (ret >= 0) BAD("C12/remove-empty", "remove on empty returned %d", ret); expect_dtor(c, NULL, 0, "remove on empty"); }
        else { int id = m_remove_at(c, 0); if (ret != 0) BAD("C12/remove-ret", "remove returned %d", ret); expect_dtor(c, &id, 1, "remove"); }
    } else {
        elem_t probe = { -1, (int)vf_below(r, 4) };
        void *arg; int pos = -1;
        if (c->n && vf_chance(r, 2, 3)) {
            int p0 = vf_below(r, c->n);
            arg = &E[c->model[p0]];
            pos = p0;
            if (c->k == LC) for (int i = 0; i < c->n; i++) if (E[c->model[i]].key == E[c->model[p0]].key) { pos = i; break; }
            ptxt("remove(e%d) ", c->model[p0]);
        } else {
            arg = &probe;
            if (c->k == LC) for (int i = 0; i < c->n; i++) if (E[c->model[i]].key == probe.key) { pos = i; break; }
            ptxt("remove(k%d) ", probe.key);
        }
        int ret = m_list_remove(c->l, arg);
        if (pos < 0) { if (ret >= 0) BAD("C12/remove-absent", "remove of absent element returned %d", ret); expect_dtor(c, NULL, 0, "remove absent"); }
        else { int id = m_remove_at(c, pos); if (ret != 0) BAD("C12/remove-ret", "remove returned %d", ret); expect_dtor(c, &id, 1, "remove"); }
    }
    verify(c, "remove");
}

static void op_clear(cont_t *c) {
    ptxt("clear ");
    int ids[MAXN]; int n = c->n; memcpy(ids, c->model, sizeof(int) * n);
    int ret = c->k == Q ? m_queue_clear(c->q) : c->k == S ? m_stack_clear(c->s) : m_list_clear(c->l);
    if (n > 0 && ret != 0) BAD("C12/clear-ret", "clear returned %d", ret);
    c->n = 0;
    expect_dtor(c, ids, n, "clear");
    verify(c, "clear");
}

/* iterator walk; act[i] gives the action at the i-th *visited* position:
 * 0 none 1 remove 2 set 3 insert(list) 4 insert+remove(list) 5 remove twice 6 get/set after remove */
static void op_walk(cont_t *c, const uint8_t *act, int nact) {
    ptxt("walk[");
    void *itr;
    if (c->k == Q) itr = m_queue_itr_new(c->q); else if (c->k == S) itr = m_stack_itr_new(c->s); else itr = m_list_itr_new(c->l);
    if (c->n == 0) { if (itr) BAD("C12/itr-on-empty", "itr_new on empty container returned an iterator"); ptxt("] "); return; }
    if (!itr) { BAD("C12/itr-null", "itr_new returned NULL on container with %d elements", c->n); return; }
    int cur = 0;          /* model index of the current element */
    int visited = 0;
    bool edited = false, skip_once = false;
    int guard = 0;
    while (itr) {
        if (++guard > 4 * MAXN) { BAD("C12/itr-endless", "iterator did not terminate"); return; }
        if (cur >= c->n) { BAD("C12/itr-overrun", "iterator still valid after %d elements were visited (len %d)", visited, c->n); return; }
        void *p = c->k == Q ? m_queue_itr_get_data(itr) : c->k == S ? m_stack_itr_get_data(itr) : m_list_itr_get_data(itr);
        if (!p || ((elem_t *)p)->id != c->model[cur]) { BAD("C12/itr-order", "iterator at position %d yields e%d, model expects e%d", cur, p ? ((elem_t *)p)->id : -1, c->model[cur]); return; }
        int a = (!skip_once && visited < nact) ? act[visited] : 0;
        skip_once = false;
        visited++;
        bool removed = false;
        int r;
        switch (a) {
        case 1: case 5: case 6: {
            ptxt("rm ");
            bool last = cur == c->n - 1, first = cur == 0;
            int id = m_remove_at(c, cur);
            r = c->k == Q ? m_queue_itr_remove(itr) : c->k == S ? m_stack_itr_remove(itr) : m_list_itr_remove(itr);
            if (r != 0) BAD("C12/itr-remove-ret", "itr_remove returned %d", r);
            expect_dtor(c, &id, 1, "itr_remove");
            removed = true; edited = true;
            if (last) st_itr_rm_last++; else if (first) st_itr_rm_first++; else st_itr_rm_mid++;
            if (c->k < L && a >= 5) {
                /* queue/stack: current element is gone: get yields NULL, set and a second remove are refused */
                void *g = c->k == Q ? m_queue_itr_get_data(itr) : m_stack_itr_get_data(itr);
                if (g) BAD("C12/itr-get-after-remove", "get after remove returned e%d", ((elem_t *)g)->id);
                elem_t *ne = new_elem(0);
                if (ne) {
                    r = c->k == Q ? m_queue_itr_set_data(itr, ne) : m_stack_itr_set_data(itr, ne);
                    if (r >= 0) BAD("C12/itr-set-after-remove", "set after remove returned %d", r);
                }
                r = c->k == Q ? m_queue_itr_remove(itr) : m_stack_itr_remove(itr);
                if (r >= 0) BAD("C12/itr-remove-twice", "second remove returned %d", r);
                expect_dtor(c, NULL, 0, "refused iterator ops");
            }
            if (c->k >= L && a == 6 && c->n < MAXN - 2) {
                /* list: an element inserted right after a removal takes the removed one's place - also at the very end of
                 * the list, where the iterator stands behind the last element - and becomes the current element */
                elem_t *ne = new_elem(9);
                if (ne) {
                    ptxt("then ins(e%d) ", ne->id);
                    r = m_list_itr_insert(itr, ne);
                    if (r != 0) BAD("C12/itr-insert-ret", "itr_insert at the position of the element just removed (%s) returned %d", last ? "the last one" : first ? "the first one" : "a middle one", r);
                    else {
                        m_insert_at(c, cur, ne->id);
                        removed = false;        /* the inserted element is the current one: next() moves past it */
                        st_itr_ins_after_rm++;
                    }
                    expect_dtor(c, NULL, 0, "itr_insert after itr_remove");
                }
            }
            if (c->k >= L && a == 5) {
                /* list: the iterator now stands on the successor; a second remove without next() in between drops that
                 * one too (or is refused when there is none) and every element still in the list is then visited once */
                bool has_succ = cur < c->n;
                int id2 = has_succ ? c->model[cur] : -1;
                r = m_list_itr_remove(itr);
                if (r == 0) {
                    if (!has_succ) { BAD("C12/itr-remove-twice", "second remove at the end of the list returned 0"); return; }
                    m_remove_at(c, cur);
                    expect_dtor(c, &id2, 1, "second itr_remove");
                    st_itr_rm_twice_list++;
                } else expect_dtor(c, NULL, 0, "refused second itr_remove");
                verify(c, "itr_remove twice");
            }
            verify(c, "itr_remove");
            break;
        }
        case 2: {
            elem_t *ne = new_elem(E[c->model[cur]].key);
            if (!ne) break;
            ptxt("set(e%d) ", ne->id);
            r = c->k == Q ? m_queue_itr_set_data(itr, ne) : c->k == S ? m_stack_itr_set_data(itr, ne) : m_list_itr_set_data(itr, ne);
            if (r != 0) BAD("C12/itr-set-ret", "itr_set returned %d", r);
            c->model[cur] = ne->id;   /* replaced element is handed back to the caller: no destructor */
            expect_dtor(c, NULL, 0, "itr_set (old element stays with the caller)");
            st_itr_set++; edited = true;
            verify(c, "itr_set");
            break;
        }
        case 3: case 4:
            if (c->k >= L && c->n < MAXN - 2) {
                elem_t *ne = new_elem(7);
                if (!ne) break;
                ptxt(a == 3 ? "ins(e%d) " : "ins+rm(e%d) ", ne->id);
                r = m_list_itr_insert(itr, ne);
                if (r != 0) BAD("C12/itr-insert-ret", "itr_insert returned %d", r);
                m_insert_at(c, cur, ne->id);      /* inserted before the current element and becomes current */
                expect_dtor(c, NULL, 0, "itr_insert");
                verify(c, "itr_insert");
                st_itr_ins++; edited = true;
                if (a == 4) {
                    int id = m_remove_at(c, cur);
                    r = m_list_itr_remove(itr);
                    if (r != 0) BAD("C12/itr-remove-ret", "itr_remove after insert returned %d", r);
                    expect_dtor(c, &id, 1, "itr_remove after insert");
                    verify(c, "itr_insert+remove");
                    /* net effect nil: next() moves on to the element after the (already visited) current one */
                } else {
                    /* the old current element follows the inserted one; whether next() yields it again is not
                     * specified: accept both by skipping it in the model iff the implementation skips it */
                    cur++;                  /* model: now at old current (already visited) */
                    if (c->k == Q) m_queue_itr_next((m_queue_itr_t **)&itr); else if (c->k == S) m_stack_itr_next((m_stack_itr_t **)&itr); else m_list_itr_next((m_list_itr_t **)&itr);
                    if (itr) {
                        void *g = m_list_itr_get_data(itr);
                        int gid = g ? ((elem_t *)g)->id : -1;
                        if (gid == c->model[cur]) { skip_once = true; /* re-yield of old current: tolerated, no action on it */ continue; }
                        if (cur + 1 < c->n && gid == c->model[cur + 1]) { cur++; continue; }
                        BAD("C12/itr-order", "after insert, next() yields e%d; expected e%d or its successor", gid, c->model[cur]);
                        return;
                    } else {
                        if (cur + 1 < c->n) BAD("C12/itr-early-end", "iterator ended after insert with %d elements unvisited", c->n - cur - 1);
                        goto done;
                    }
                }
            }
            break;
        default: break;
        }
        if (!removed) cur++;
        if (c->k == Q) m_queue_itr_next((m_queue_itr_t **)&itr); else if (c->k == S) m_stack_itr_next((m_stack_itr_t **)&itr); else m_list_itr_next((m_list_itr_t **)&itr);
    }
    if (cur != c->n) BAD("C12/itr-early-end", "iterator ended at model position %d of %d: elements were not visited", cur, c->n);
done:
    ptxt("] ");
    if (edited) st_after_itr_edit_ops++;
    verify(c, "walk");
}

static void c_new(cont_t *c, enum kind k, bool with_dtor) {
    memset(c, 0, sizeof(*c));
    c->k = k; c->with_dtor = with_dtor;
    m_queue_dtor d = with_dtor ? dtor_cb : NULL;
    if (k == Q) c->q = m_queue_new(d); else if (k == S) c->s = m_stack_new(d); else c->l = m_list_new(k == LC ? cmp_cb : k == LN ? never_cb : NULL, d);
    if (!c->q && !c->s && !c->l) vf_fail("C12/new-null", "container constructor returned NULL");
    n_elems = 0; ndlog = 0; prog_len = 0; prog_txt[0] = 0;
}
static void c_free(cont_t *c, uint64_t live0) {
    ptxt("free");
    int ids[MAXN]; int n = c->n; memcpy(ids, c->model, sizeof(int) * n);
    int r;
    if (c->k == Q) { r = m_queue_free(&c->q); if (c->q) BAD("C12/free-not-nulled", "queue pointer not reset"); }
    else if (c->k == S) { r = m_stack_free(&c->s); if (c->s) BAD("C12/free-not-nulled", "stack pointer not reset"); }
    else { r = m_list_free(&c->l); if (c->l) BAD("C12/free-not-nulled", "list pointer not reset"); }
    if (r != 0) BAD("C12/free-ret", "free returned %d", r);
    c->n = 0;
    expect_dtor(c, ids, n, "free");
    if (vf_live() != live0) { vf_live_since(0, 4); BAD("C12/leak", "%zu allocations outstanding after free", vf_live() - live0); }
}

/* ---- exhaustive enumeration of short programs ---- */
/* alphabet: 0 add 1 add(dup key) 2 take/remove-by-ptr 3 remove(front)/remove-by-key 4 peek/find 5 clear
 *           6 walk rm first 7 walk rm last 8 walk rm all 9 walk rm middle 10 walk set last 11 walk rm-twice last (list with >= 2 elements: rm-twice first)
 *           12 walk ins first(list) 13 walk ins last (list) 14 walk ins+rm everywhere (list) 15 walk nothing */
#define ALPHA 16
static void exec_letter(cont_t *c, int letter, vf_rng *r) {
    uint8_t act[MAXN];
    memset(act, 0, sizeof(act));
    int n = c->n;
    st_ops++;
    switch (letter) {
    case 0: op_add(c, 0); break;
    case 1: op_add(c, 1); break;
    case 2: if (c->k < L) op_take(c); else op_remove(c, r); break;
    case 3: op_remove(c, r); break;
    case 4: op_peek(c, r); break;
    case 5: op_clear(c); break;
    case 6: act[0] = 1; op_walk(c, act, MAXN); break;
    case 7: if (n) act[n - 1] = 1; op_walk(c, act, MAXN); break;
    case 8: memset(act, 1, sizeof(act)); op_walk(c, act, MAXN); break;
    case 9: if (n > 2) act[1] = 1; else if (n) act[n - 1] = 1; op_walk(c, act, MAXN); break;
    case 10: if (n) act[n - 1] = 2; op_walk(c, act, MAXN); break;
    case 11: if (c->k >= L && n >= 2) act[0] = 5; else if (n) act[n - 1] = 5; op_walk(c, act, MAXN); break;
    case 12: act[0] = 3; op_walk(c, act, MAXN); break;
    case 13: if (n) act[n - 1] = 3; op_walk(c, act, MAXN); break;
    case 14: memset(act, 4, sizeof(act)); op_walk(c, act, MAXN); break;
    default: op_walk(c, act, MAXN); break;
    }
}

static long long n_exh;
static int first_letter = -1;
static void exhaustive(enum kind k, bool with_dtor, int maxlen) {
    int prog[16];
    /* iterative odometer over all programs of length 1..maxlen */
    for (int len = 1; len <= maxlen; len++) {
        memset(prog, 0, sizeof(prog));
        for (;;) {
            /* skip programs whose list-only letters make no sense for queue/stack */
            bool skip = false;
            for (int i = 0; i < len; i++) if (k < L && prog[i] >= 12 && prog[i] <= 14) skip = true;
            if (first_letter >= 0 && prog[0] != first_letter) skip = true;
            if (!skip) {
                cont_t c; vf_rng r = { 12345 };
                uint64_t live0 = vf_live();
                c_new(&c, k, with_dtor);
                cur_seed = 0;
                uint64_t h = k * 2 + with_dtor;
                for (int i = 0; i < len; i++) { exec_letter(&c, prog[i], &r); h = vf_mix(h, prog[i] + 1); }
                c_free(&c, live0);
                n_exh++;
                if ((n_exh & 0x3ff) == 1) vf_sig(h);
            }
            int i = len - 1;
            while (i >= 0 && ++prog[i] == ALPHA) { prog[i] = 0; i--; }
            if (i < 0) break;
        }
    }
}

static void random_run(uint64_t seed, int maxops, bool sample) {
    vf_rng r = { seed };
    enum kind k = vf_below(&r, 5);
    bool with_dtor = vf_chance(&r, 2, 3);
    cont_t c;
    uint64_t live0 = vf_live();
    c_new(&c, k, with_dtor);
    cur_seed = seed;
    int nops = 1 + vf_below(&r, maxops);
    uint64_t h = seed;
    bool edited = false;
    for (int i = 0; i < nops && n_elems < MAXE - MAXN; i++) {
        int o = vf_below(&r, 100);
        st_ops++;
        if (o < 38) op_add(&c, vf_below(&r, 4));
        else if (o < 52) { if (k < L) op_take(&c); else op_remove(&c, &r); }
        else if (o < 60) op_remove(&c, &r);
        else if (o < 68) op_peek(&c, &r);
        else if (o < 71) op_clear(&c);
        else {
            uint8_t act[MAXN];
            int dens = 1 + vf_below(&r, 6);
            for (int j = 0; j < MAXN; j++) {
                act[j] = 0;
                if (vf_chance(&r, 1, dens)) {
                    int a = vf_below(&r, 7);
                    if (k < L && (a == 3 || a == 4)) a = 1;
                    act[j] = a;
                }
            }
            /* make the ends interesting */
            if (c.n && vf_chance(&r, 1, 2)) act[c.n - 1] = vf_chance(&r, 1, 2) ? 1 : (k >= L ? 3 : 5);
            if (vf_chance(&r, 1, 3)) act[0] = 1;
            op_walk(&c, act, MAXN);
            edited = true;
        }
        h = vf_mix(h, o * 131 + c.n);
    }
    c_free(&c, live0);
    if (edited) vf_sig(h);
    if (sample) printf("SAMPLE %s dtor=%d seed=%llu: %.700s\n", kname[k], with_dtor, (unsigned long long)seed, prog_txt);
}

int main(int argc, char **argv) {
    uint64_t seed = argc > 1 ? strtoull(argv[1], NULL, 0) : 1;
    int exh = argc > 2 ? atoi(argv[2]) : 4;
    int nrand = argc > 3 ? atoi(argv[3]) : 200;
    int maxops = argc > 4 ? atoi(argv[4]) : 300;
    setvbuf(stdout, NULL, _IOFBF, 1 << 16);
    m_set_memhook(vf_malloc, vf_calloc, vf_free);
    if (exh > 0) {
        /* argv[5]: which (kind,dtor) slice of the exhaustive space this process enumerates: 0..7, or -1 = all */
        int slice = argc > 5 ? atoi(argv[5]) : -1;
        first_letter = argc > 6 ? atoi(argv[6]) : -1;
        for (int k = 0; k < 5; k++) for (int d = 0; d < 2; d++) if (slice < 0 || slice == k * 2 + d) exhaustive(k, d, exh);
    }
    vf_stat("exhaustive_programs", n_exh);
    for (int i = 0; i < nrand; i++) random_run(seed * 1000003ULL + i, maxops, i < 2);
    vf_stat("random_programs", nrand);
    vf_stat("ops", st_ops);
    vf_stat("itr_remove_last", st_itr_rm_last);
    vf_stat("list_itr_remove_twice_in_a_row", st_itr_rm_twice_list);
    vf_stat("itr_remove_first", st_itr_rm_first);
    vf_stat("itr_remove_middle", st_itr_rm_mid);
    vf_stat("itr_set", st_itr_set);
    vf_stat("itr_insert", st_itr_ins);
    vf_stat("itr_insert_right_after_itr_remove", st_itr_ins_after_rm);
    vf_stat("walks_with_edits", st_after_itr_edit_ops);
    vf_stat("destructor_calls_checked", st_dtor);
    fflush(stdout);
    return vf_fail_count ? 1 : 0;
}

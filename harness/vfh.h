/* Shared helpers for the verification harnesses: PRNG, reporting protocol, accounting allocator.
 * Header-only; every harness is a single translation unit.
 *
 * stdout protocol (parsed by vf/runner.py):
 *   FAIL <key> | <free text witness>
 *   STAT <name> <integer>
 *   SIG <hex64>            signature of one explored case (for distinct counting)
 *   SAMPLE <text>          a written-out case
 */
#pragma once
#include <stdio.h>
#include <stdlib.h>
#include <stdint.h>
#include <stdbool.h>
#include <string.h>
#include <stdarg.h>
#include <errno.h>
#include <pthread.h>
#include <unistd.h>

#if defined(__SANITIZE_THREAD__)
#define VF_TSAN 1
#else
#define VF_TSAN 0
#endif

/* ---------- PRNG (splitmix64) ---------- */
typedef struct { uint64_t s; } vf_rng;
static inline uint64_t vf_next(vf_rng *r) {
    uint64_t z = (r->s += 0x9E3779B97F4A7C15ULL);
    z = (z ^ (z >> 30)) * 0xBF58476D1CE4E5B9ULL;
    z = (z ^ (z >> 27)) * 0x94D049BB133111EBULL;
    return z ^ (z >> 31);
}
static inline uint32_t vf_below(vf_rng *r, uint32_t n) { return n ? (uint32_t)(vf_next(r) % n) : 0; }
static inline bool vf_chance(vf_rng *r, uint32_t num, uint32_t den) { return vf_below(r, den) < num; }

/* ---------- hashing for signatures ---------- */
static inline uint64_t vf_mix(uint64_t h, uint64_t v) {
    h ^= v + 0x9E3779B97F4A7C15ULL + (h << 6) + (h >> 2);
    h *= 0xff51afd7ed558ccdULL;
    return h ^ (h >> 33);
}

/* ---------- reporting ---------- */
static int vf_fail_count;
static int vf_fail_fatal = 1;
static void (*vf_fail_hook)(const char *key, const char *msg);
static void vf_fail(const char *key, const char *fmt, ...) __attribute__((format(printf, 2, 3)));
static void vf_fail(const char *key, const char *fmt, ...) {
    va_list ap;
    char buf[4096];
    va_start(ap, fmt);
    vsnprintf(buf, sizeof(buf), fmt, ap);
    va_end(ap);
    for (char *c = buf; *c; c++) if (*c == '\n') *c = ' ';
    vf_fail_count++;
    if (vf_fail_hook) { vf_fail_hook(key, buf); return; }
    printf("FAIL %s | %s\n", key, buf);
    fflush(stdout);
    if (vf_fail_fatal) {
        _exit(1);
    }
}
static inline void vf_stat(const char *name, long long v) { printf("STAT %s %lld\n", name, v); }
static inline void vf_sig(uint64_t h) { printf("SIG %016llx\n", (unsigned long long)h); }

/* ---------- accounting allocator ---------- */
#ifndef VF_NO_LEDGER
typedef struct { void *p; size_t size; uint64_t seq; int tag; } vf_blk;
static vf_blk *vf_tab;
static size_t vf_tab_cap, vf_tab_len;
static uint64_t vf_alloc_seq, vf_free_seq;
static pthread_mutex_t vf_alloc_mx = PTHREAD_MUTEX_INITIALIZER;
static int vf_alloc_tag;               /* tag given to new blocks (harness can set it around calls) */
static void (*vf_on_free)(void *p, int tag, size_t size);   /* observer, called before the block is released */

static inline size_t vf_slot(void *p, size_t cap) { return (size_t)(((uintptr_t)p >> 4) * 0x9E3779B97F4A7C15ULL >> 20) & (cap - 1); }
static void vf_tab_put(vf_blk b);
static void vf_tab_grow(void) {
    size_t ocap = vf_tab_cap;
    vf_blk *o = vf_tab;
    vf_tab_cap = ocap ? ocap * 2 : 4096;
    vf_tab = calloc(vf_tab_cap, sizeof(vf_blk));
    vf_tab_len = 0;
    for (size_t i = 0; i < ocap; i++) if (o[i].p) vf_tab_put(o[i]);
    free(o);
}
static void vf_tab_put(vf_blk b) {
    if ((vf_tab_len + 1) * 2 > vf_tab_cap) vf_tab_grow();
    size_t i = vf_slot(b.p, vf_tab_cap);
    while (vf_tab[i].p) i = (i + 1) & (vf_tab_cap - 1);
    vf_tab[i] = b;
    vf_tab_len++;
}
static vf_blk *vf_tab_find(void *p) {
    if (!vf_tab_cap) return NULL;
    size_t i = vf_slot(p, vf_tab_cap);
    while (vf_tab[i].p) {
        if (vf_tab[i].p == p) return &vf_tab[i];
        i = (i + 1) & (vf_tab_cap - 1);
    }
    return NULL;
}
static void vf_tab_del(vf_blk *e) {
    size_t i = e - vf_tab;
    vf_tab[i].p = NULL;
    vf_tab_len--;
    size_t j = (i + 1) & (vf_tab_cap - 1);
    while (vf_tab[j].p) {
        vf_blk b = vf_tab[j];
        vf_tab[j].p = NULL;
        vf_tab_len--;
        vf_tab_put(b);
        j = (j + 1) & (vf_tab_cap - 1);
    }
}
static void *vf_register(void *p, size_t size) {
    if (p) {
        pthread_mutex_lock(&vf_alloc_mx);
        vf_blk b = { p, size, ++vf_alloc_seq, vf_alloc_tag };
        vf_tab_put(b);
        pthread_mutex_unlock(&vf_alloc_mx);
    }
    return p;
}
/* allocation fault injection: when armed with k > 0 the k-th allocation from now on fails (once); vf_fault_fired tells whether
 * it was reached.  Single-threaded harnesses only arm it around one library call. */
static long vf_fault_countdown;
static long vf_fault_fired, vf_faults_total;
static inline bool vf_fault_now(void) {
    if (vf_fault_countdown > 0 && --vf_fault_countdown == 0) { vf_fault_fired++; vf_faults_total++; return true; }
    return false;
}
static inline void vf_fault_arm(long k) { vf_fault_countdown = k; vf_fault_fired = 0; }
static inline bool vf_fault_disarm(void) { vf_fault_countdown = 0; return vf_fault_fired > 0; }
static void *vf_malloc(size_t n) { if (vf_fault_now()) return NULL; return vf_register(malloc(n ? n : 1), n); }
static void *vf_calloc(size_t a, size_t b) { if (vf_fault_now()) return NULL; return vf_register(calloc(a ? a : 1, b ? b : 1), a * b); }
static void vf_free(void *p) {
    if (!p) return;
    pthread_mutex_lock(&vf_alloc_mx);
    vf_blk *e = vf_tab_find(p);
    if (!e) {
        pthread_mutex_unlock(&vf_alloc_mx);
        vf_fail("alloc/free-of-unknown-or-already-freed", "free(%p): not a live block of the configured allocator (double free, foreign or stack pointer)", p);
        return;
    }
    int tag = e->tag;
    size_t size = e->size;
    vf_tab_del(e);
    vf_free_seq++;
    pthread_mutex_unlock(&vf_alloc_mx);
    if (vf_on_free) vf_on_free(p, tag, size);
    free(p);
}
static size_t vf_live(void) { return vf_tab_len; }
static bool vf_is_live(void *p) {
    pthread_mutex_lock(&vf_alloc_mx);
    bool r = vf_tab_find(p) != NULL;
    pthread_mutex_unlock(&vf_alloc_mx);
    return r;
}
/* print up to n outstanding blocks allocated after sequence number `since` */
static size_t vf_live_since(uint64_t since, int max_print) {
    size_t n = 0;
    for (size_t i = 0; i < vf_tab_cap; i++) {
        if (vf_tab[i].p && vf_tab[i].seq > since) {
            if ((int)n < max_print) printf("LEAK block=%p size=%zu seq=%llu tag=%d\n", vf_tab[i].p, vf_tab[i].size, (unsigned long long)vf_tab[i].seq, vf_tab[i].tag);
            n++;
        }
    }
    return n;
}
#endif

"""Helpers shared by the offline oracles: slot-argument resolution, scenario facts."""

# which argument positions of an op are module slots (-1 = "self" inside a callback)
SLOT_ARGS = {
    "reg": (0,), "dereg": (0,), "start": (0,), "pause": (0,), "resume": (0,), "stop": (0,), "obs_drop": (0,), "obs_drop_keep_handle": (0,), "fd_hup": (), "bind": (0, 1),
    "tb": (0,), "bsize": (0,), "btimeout": (0,), "become": (0,), "unbecome": (0,), "stash": (0,), "unstash": (0,),
    "tell": (0, 1), "publish": (0,), "pill": (0, 1), "sub": (0,), "unsub": (0,),
    "fd_reg": (0,), "fd_dereg": (0,), "tmr_reg": (0,), "tmr_dereg": (0,), "sgn_reg": (0,), "sgn_dereg": (0,),
    "path_reg": (0,), "path_dereg": (0,), "pid_reg": (0,), "pid_dereg": (0,), "task_reg": (0,), "task_dereg": (0,),
    "thresh_reg": (0,), "thresh_dereg": (0,), "srclen": (0,), "mstats": (0,), "lookup": (0, 1), "mod_ref": (0,),
    "mod_unref": (0,), "nameof": (0,), "mod_log": (0,), "mod_dump": (0,),
}

HARNESS_SKIP = -1000     # return codes <= this mean "the harness did not execute the call"


def resolve_slots(recs):
    """annotate every '>' record with .fields['slots'] = resolved slot arguments (self -> slot of the innermost
    callback open at call time) and .fields['cb'] = (slot, kind, n) of the innermost open callback or None"""
    cbs = []
    for r in recs:
        if r.k == "B":
            cbs.append(r)
        elif r.k == "E":
            if cbs:
                cbs.pop()
        elif r.k == ">":
            cur = cbs[-1].slot if cbs else None
            pos = SLOT_ARGS.get(r.op, ())
            sl = []
            for p in pos:
                if p < len(r.args):
                    v = r.args[p]
                    if v == -1:
                        v = cur if cur is not None else 0
                    sl.append(v)
                else:
                    sl.append(None)
            r.fields = dict(r.fields)
            r.fields["slots"] = sl
            r.fields["cb"] = (cbs[-1].slot, cbs[-1].kind, cbs[-1].n) if cbs else None
            r.fields["cbstack"] = [(c.slot, c.kind) for c in cbs]


def executed(r):
    """the '<' (or '>' with .ret filled) record of a call the harness really made"""
    return r.ret is not None and r.ret > HARNESS_SKIP


class Facts:
    """static facts of the scenario"""

    def __init__(self, sc):
        self.name = {s: v[0] for s, v in sc.mods.items()}
        self.flags = {s: v[1] for s, v in sc.mods.items()}
        self.hooks = {s: v[2] for s, v in sc.mods.items()}
        self.topics = list(sc.topics)

    def has(self, slot, bit):
        return bool(self.hooks.get(slot, 0) & bit)

"""C18 oracle: token bucket.  Real time but one-sided and sound (see DESIGN.md C18)."""
from vf.model_common import resolve_slots, executed, Facts

EAGAIN = -11
CONSUMING = ("start", "pause", "resume", "stop", "tell", "publish", "pill", "sub", "unsub", "fd_reg", "fd_dereg", "tmr_reg", "tmr_dereg",
             "sgn_reg", "sgn_dereg", "become", "unbecome", "stash", "unstash", "bsize", "path_reg", "path_dereg", "pid_reg", "pid_dereg",
             "task_reg", "thresh_reg", "thresh_dereg")


def check_c18(case, stats=None):
    recs = case.recs
    resolve_slots(recs)
    V = []

    def bad(key, msg, r=None):
        V.append(("C18/" + key, msg + ((" (trace line %d: %s)" % (r.i, r.raw[:110])) if r is not None else "")))

    def cnt(k, n=1):
        if stats is not None:
            stats[k] = stats.get(k, 0) + n

    st = {}
    srclen = {}
    bucket = {}         # module -> dict(rate, burst, since_t, succ=[(t_minus, t_plus)], last_eagain_t, drv_inv_at_eagain)
    calls = {}
    drv_inv = 0
    refused_pay = {}
    pend = []
    free_run = {}       # module -> count of consecutive successes required after limit removal

    for r in recs:
        if r.k != "S" and pend:
            for c in pend:
                m = c.fields["slots"][0]
                if c.fields["_st"].get(m) != st.get(m) and not c.fields.get("_nested"):
                    bad("refused-call-had-effect", "%s on module %d returned -EAGAIN but its state changed %s -> %s" % (c.op, m, c.fields["_st"].get(m), st.get(m)), c.end)
                a, b = c.fields["_srclen"].get(m), srclen.get(m)
                if a is not None and b is not None and a >= 0 and b >= 0 and a != b and not c.fields.get("_nested"):
                    bad("refused-call-had-effect", "%s on module %d returned -EAGAIN but its source count changed %d -> %d" % (c.op, m, a, b), c.end)
            pend = []
        if r.k == "S":
            for m, (l, n) in r.states.items():
                if st.get(m) != l and l in ("S", "Z"):
                    if m in bucket:
                        free_run[m] = 3 * bucket[m]["burst"] + 20
                    bucket.pop(m, None)
                st[m] = l
                srclen[m] = n
        elif r.k in ("X", "F") and calls:
            # what the library closes / frees while a call is open is remembered on that call: one refused for lack of a
            # token must not have given up anything the caller handed in (descriptor to auto-close, user pointer to auto-free)
            inner = max(calls.values(), key=lambda c_: c_.i)
            if r.k == "X" and r.kind == "close" and r.fields.get("cls") == "user":
                inner.fields.setdefault("_closed_user", []).append(r.fields.get("uidx"))
            elif r.k == "F" and r.kind == "ud":
                inner.fields.setdefault("_freed_ud", []).append(r.n)
        elif r.k == "B":
            if r.slot == 0 and r.kind == "evt":
                drv_inv += 1
            for c in calls.values():
                c.fields["_nested"] = True
        elif r.k == ">":
            calls[r.id] = r
            r.fields["_st"] = dict(st)
            r.fields["_srclen"] = dict(srclen)
        elif r.k == "<":
            c = calls.pop(r.id, None)
            if c is None or not executed(r):
                continue
            sl = c.fields.get("slots", [])
            m = sl[0] if sl else None
            if c.op == "tb" and m in st:
                cnt("tb_configurations")
                if r.ret >= 0 or r.ret == -17:
                    rate, burst = c.args[1], c.args[2]
                    if rate == 0:
                        if m in bucket:
                            free_run[m] = 3 * bucket[m]["burst"] + 20
                        bucket.pop(m, None)
                    elif r.ret >= 0:
                        bucket[m] = dict(rate=rate, burst=burst, succ=[], eagain=None)
                        free_run.pop(m, None)
                continue
            if c.op not in CONSUMING or m is None or m not in st:
                continue
            if r.ret == EAGAIN:
                cnt("eagain")
                if m not in bucket:
                    if free_run.get(m):
                        bad("limit-not-removed", "%s on module %d returned -EAGAIN although its token bucket was removed (rate 0 / stop-start)" % (c.op, m), r)
                    else:
                        bad("eagain-without-bucket", "%s on module %d returned -EAGAIN but no token bucket is configured" % (c.op, m), r)
                else:
                    b = bucket[m]
                    if b["eagain"] is None:
                        b["eagain"] = (c.t, drv_inv)
                    pend.append(c)
                    if not c.fields.get("_nested"):
                        if c.fields.get("_closed_user"):
                            bad("refused-call-had-effect", "%s on module %d returned -EAGAIN but the library closed the caller's descriptor (scenario descriptor %s) during the call" % (c.op, m, c.fields["_closed_user"]), r)
                        if c.fields.get("_freed_ud"):
                            bad("refused-call-had-effect", "%s on module %d returned -EAGAIN but the library released the caller's user pointer (token %s) during the call" % (c.op, m, c.fields["_freed_ud"]), r)
                        cnt("refused_calls_checked_for_ownership")
                    if c.fields.get("pay"):
                        refused_pay[c.fields["pay"]] = (c.op, m)
                continue
            if r.ret < 0:
                continue
            # a successful token-consuming call
            if m in free_run:
                free_run[m] -= 1
                if free_run[m] <= 0:
                    free_run.pop(m)
            if m in bucket:
                b = bucket[m]
                cnt("limited_successes")
                succ = b["succ"]
                succ.append((c.t, r.t))
                j = len(succ) - 1
                # pair bound: j-i+1 <= burst + rate * (t+_j - t-_i) * (1+1e-6) + 2
                # (+2: tokens are added when the loop *reads* a timer expiry: one expiry from just before the interval
                #  may be read inside it, plus the usual boundary tick)
                for i in range(max(0, j - 400), j + 1):
                    dt = (succ[j][1] - succ[i][0]) / 1e6
                    allowed = b["burst"] + b["rate"] * dt * (1 + 1e-6) + 2
                    if (j - i + 1) > allowed + 1e-9:
                        bad("rate-exceeded", "module %d (rate %d/s, burst %d): %d token-consuming calls succeeded within %.6f s, the bucket allows at most %.2f" % (m, b["rate"], b["burst"], j - i + 1, dt, allowed), r)
                        succ.clear()
                        break
                # refill: the bucket recovered
                if b["eagain"] is not None:
                    cnt("recovered_after_exhaustion")
                    b["eagain"] = None
        elif r.k == "V" and r.kind == "ps" and r.fields.get("sys") == "0":
            try:
                pid = int(r.fields.get("data", "0"))
            except ValueError:
                pid = -1
            if pid in refused_pay:
                bad("refused-call-had-effect", "payload %d of a send refused with -EAGAIN was delivered to module %d" % (pid, r.slot), r)
    # bounded recovery: a probe issued >= 25 periods and >= 8 driver batches after an -EAGAIN must not be refused
    V += _recovery(case, stats)
    return V


def _recovery(case, stats):
    V = []
    probes = case.sc.meta.get("tb_probes", [])      # list of (module, rate) : generator promises a long pause before the probe op "bsize m 77"
    if not probes:
        return V
    recs = case.recs
    st = {}
    for r in recs:
        if r.k == "S":
            for m, (l, _n) in r.states.items():
                st[m] = l
        if r.k == "<" and r.op == "bsize" and r.args[1] == 77 and executed(r):
            m = r.begin.fields.get("slots", [None])[0]
            if st.get(m) == "R":
                if stats is not None:
                    stats["recovery_probes"] = stats.get("recovery_probes", 0) + 1
                if r.ret == -11:
                    V.append(("C18/no-refill", "module %d was throttled, then left alone for more than 25 token periods while the loop kept dispatching, and is still refused (-EAGAIN): tokens are not replenished (trace line %d)" % (m, r.i)))
    return V

#!/usr/bin/env python3
"""Regenerates /verif/MANIFEST.json from the table below (python3 vf/manifest.py)."""
import json
import os
import subprocess

VERIF = os.path.dirname(os.path.dirname(os.path.abspath(__file__)))

EXPL = "exploration"
TB = ("gcc 12 sanitizer runtimes, the harness and oracle code under /verif (validated against mutants, DESIGN.md §6), "
      "Linux pipe/epoll/timerfd semantics, VERIF_SEED-driven sampling: a pass means 'held on the executions of this run', not a proof")

CHECKS = {
    "C10": dict(tech="refcount reference model run in lock-step inside the harness + accounting allocator (m_set_memhook, two allocators switched at quiescent points) under ASan/UBSan + a memcheck slice; exhaustive size sweep 0..4096, impossible sizes, destructors that lock their own block",
                text="Every size 0..4096 is enumerated (alignment, size, bounds by ASan, release), then random ref/unref histories incl. nested destructors are compared op-by-op with a refcount model while an accounting allocator checks that the enclosing allocation is freed exactly once, after the destructor. Exploration: histories are sampled.",
                ref="C10"),
    "C11": dict(tech="sorted-array reference model in lock-step inside the harness under ASan/UBSan; all permutations of K<=7 (quick) / 8 (thorough) keys x every removal and iterator-removal position, plus random programs with pointer keys spread over the whole 64-bit range; memcheck slice",
                text="Small scope is enumerated completely (every insertion order of up to K keys, every single removal, every iterator-removal position, all removal subsets for K<=6), every result, traversal order and destructor argument is compared with a sorted array; pre/post-order are cross-checked by rebuilding the tree. Random programs beyond that are sampled.",
                ref="C11"),
    "C12": dict(tech="array reference models in lock-step inside the harness under ASan/UBSan; exhaustive enumeration of all programs up to length 5 (quick) / 6 (thorough) over a 16-letter op alphabet incl. iterator edits at first/middle/last (double removal through a list iterator), plus random long programs; memcheck slice",
                text="All short programs are enumerated for queue, stack, list and list-with-comparator, with and without destructor; after every operation the container content, length and the destructor log are compared with an array model, and the container keeps being used after iterator edits. Longer programs are sampled.",
                ref="C12"),
    "C05": dict(tech="linear reference dictionary in lock-step inside the harness + per-operation allocator balance (m_set_memhook) under ASan/UBSan; adversarial key sets mined from the hash (same home slot, clusters wrapping the table end, one probe chain longer than half the table, growth, maps parked on the growth threshold with puts issued from inside the iterate callback); memcheck slice",
                text="Random operation sequences over all flag combinations are compared call-by-call with a linear dictionary, including exactly-once visiting under removal during iteration, destructor argument identity and the allocation balance of every put/remove (private key copies). Key sets are adversarial by construction; sequences are sampled.",
                ref="C05"),
    "C06": dict(tech="stress workload on ASan and TSan builds with guarded hooks in thpool.c driving seeded delay injection and spurious wake-ups; monitors: per-task counters/stamps, concurrency gauge, pool-touched-after-free hook monitor, allocator balance, quiescence-based deadlock detector; tasks submitting follow-up work to their own pool; pthread_create failures injected through --wrap; TSan/ASan reports",
                text="Thousands of perturbed schedules per run over all pool flavours are observed by online monitors (exactly-once, argument identity, wait-all/wait-current completion relative to the stamp at which free returned, no pool access after free, gauge <= threads, logical deadlock criterion) plus the race detector. Schedules are sampled: the evidence reports distinct interleaving signatures seen.",
                ref="C06"),
    "C04": dict(tech="generated API programs with scripted re-entrant callbacks executed by the core_exec interpreter on the ASan+UBSan+LSan build, accounting allocator via m_set_memhook (free-of-unknown, outstanding table at quiescence), zombie and retained-event probes; a third of the scenarios run without the harness's observation references (so that released memory really is released); a slice re-run under valgrind memcheck",
                text="Every scenario profile (random mixed programs and hostile-lifetime templates: mailbox overflow, self stop/deregister/unsubscribe with mail in flight, cross-module stop inside one poll batch, events retained past source/module/context, auto-free fan-out, last reference dropped inside callbacks and inside the final flush, context released with its last module, m_mod_bind followers attacking their leader, loop driven from callbacks, replacement under the old module's own name string) is executed under the sanitizers in both driving modes; a violation is any sanitizer report, an allocator verdict, or blocks outstanding after teardown. Memory safety is judged on the executions produced; red-zone limits apply.",
                ref="C04"),
    "C01": dict(tech="offline trace oracle (documented-edge state machine with cause attribution, callback pairing, evaluation-pass and running-count rules) over dense state observations recorded by the core_exec interpreter running generated lifecycle programs with scripted re-entrant callbacks; plain build, both driving modes",
                text="Hundreds (quick) to tens of thousands (thorough) of generated multi-module histories with every (state, call) pair issued from outside and from inside each callback kind and all eval/start result combinations are executed against the real library; the oracle judges every observed state change, every lifecycle return code, every callback and every evaluation pass. Histories are sampled, not enumerated.",
                ref="C01"),
    "C02": dict(tech="offline trace oracle over messaging traces with unique payload tokens (eligibility from observed states + tracked subscription sets, exactly-once, completeness at loop-run end, auto-free release timing from the accounting allocator's free events); messaging, hostile and idle_throttled profiles; plain build, both driving modes",
                text="Generated many-to-many tell/publish/broadcast histories (literal and regex subscriptions, state changes, quit with mail pending, mailbox overflow bursts, auto-free fan-out 0/1/n) run against the real library; every delivery is matched to its send through the unique payload and judged for eligibility, uniqueness, content and loss, every auto-free payload for exactly-once release at the right time.",
                ref="C02"),
    "C08": dict(tech="offline trace oracle: linear scan per recipient of delivery order against non-overlapping send intervals (unique payload tokens), poison-pill rules (nothing sent earlier is lost - batched or low-priority mail included -, nothing sent later is delivered until the recipient has been stopped, across pause/resume and loop restarts); ordering + messaging profiles with batching, pause/resume, several loop runs; plain build, both modes",
                text="Per-recipient order of first-time deliveries is compared with the order of the send calls across tell/publish/broadcast, batches, handler invocations, loop restarts and the final flush; pills must neither overtake earlier mail nor let later mail through.",
                ref="C08"),
    "C19": dict(tech="offline trace oracle: every system-flagged delivery must be backed by an observed loop event or module transition of the named module (counting, per recipient), tick-rate bound from trace timestamps, count-based completeness for literal subscriptions held over whole loop runs (paused-and-resumed subscribers included), state-tracking rule (the last started/stopped notification about a module matches its state at the end of the run), no burst of stale ticks after a pause; sysnotif (with transitions nested in lifecycle callbacks) and tick_rearm profiles, plain build, both modes",
                text="Transitions are the module state changes observed at every call/callback boundary; received system notifications are counted against them per (recipient, topic, named module) in both directions where the statement is unambiguous; tick notifications are bounded by elapsed time over period.",
                ref="C19"),
    "C03": dict(tech="offline trace oracle (event-to-registered-source matching incl. user-data tokens, one-shot rule, conservation of harness-written pipe tokens, loop-exit rule with requested quit code) + two-mode differential (blocking loop vs dispatch loop on the same scenario); sources profile with scripted errno poisoning in every callback and 1-100 descriptors ready per poll batch; further profiles: one-shot subscription bursts, a signal shared by two modules with one-shot descriptors in the same batch, descriptors in error condition, a signal sent to the process while library task threads exist, tasks queued at loop stop (known finding); plain build",
                text="Every delivered event is matched against the sources its module registered (kind, key, user-data token); tokens written into registered pipes are conserved; every loop run must end for a stated reason with the requested code whatever errno the callbacks leave; the deterministic deliveries of both driving modes are compared.",
                ref="C03"),
    "C09": dict(tech="offline trace oracle: reference keyed sets per (module, source kind) updated from every register/deregister call and compared with m_mod_src_len() observed after every record; (total and per source kind); registry profile with colliding key pools and extreme keys on idle/running/paused/stopped modules, M_SRC_DUP descriptors, unpollable sources, library-internal timers (batch timeout, token bucket) on the periods of user timers; plain build",
                text="Generated register/deregister sequences over all eight source kinds (keys from small colliding pools and extremes such as timer periods 2^32 apart, threshold pairs with equal sums) are judged call by call: new key accepted, present key -EEXIST, absent key refused, counts equal to the set sizes after every call, sets survive pause/resume and loop restart and vanish at stop.",
                ref="C09"),
    "C20": dict(tech="link-time wrapped descriptor ledger (close/pipe/dup/epoll_create1/timerfd_create/signalfd/inotify_init1/eventfd/pidfd_open of the library objects) + /proc/self/fd diff at quiescent points, judged by an offline oracle; sources/hostile/registry/mixed profiles with auto-close, dup (also dup + auto-close: the user's descriptor and the duplicate) and one-shot mixes; plain build",
                text="Every close() the library issues is classified against the ledger (own and open / user's with a released auto-close registration, once) and at quiescence nothing the library opened may remain while every auto-close descriptor whose source is gone must have been closed.",
                ref="C20"),
    "C13": dict(tech="offline trace oracle with an exact priority/batch-size model on serialised scenarios (handler invocation boundaries and contents compared batch by batch) + conservation on all scenarios; batching profile (sizes 0,1,2,3,7,64, LOW/NORMAL/HIGH subscriptions, descriptor source, pause/resume, stop/start probes, set-then-clear timeouts in both call orders, token-bucket refill ticks with low-priority events pending, setters refused for lack of tokens); deterministic timeout-not-awaited rule for timeout-only stretches; plain build, both modes",
                text="Production is serialised so that arrival order and the settings in force at each arrival are unambiguous; the sequence of handler invocations and the events each one carries must equal the model's; one extra hand-over at loop stop is tolerated. Timeout scenarios are judged for conservation and for immediate delivery once neither size nor timeout is configured.",
                ref="C13"),
    "C16": dict(tech="offline trace oracle: FIFO model of stashed event tokens per module, stash admission rules, unstash(n) return value and the single directly nested handler invocation with exactly the oldest events, unchanged (user data included); refused calls (-EAGAIN) are no-ops; stash_become profile (throttled, deny-ctx and auto-free-userptr variants); plain build, both modes",
                text="Generated stash/unstash(n) sequences (n from 1 to beyond the stash size and SIZE_MAX, from handlers and from outside, interleaved with deliveries, handler changes and stop/start) are judged call by call against a FIFO model using unique event tokens.",
                ref="C16/C17"),
    "C14": dict(tech="multi-threaded harness (one context per thread, 2-8 threads) run under ThreadSanitizer and AddressSanitizer; in-harness monitors (sender / user-data / descriptor belong to the receiving context, messages received == messages its own deterministic program sent), alone-vs-concurrent differential of per-context counters, foreign-thread call matrix over every non-getter m_mod_* prototype with the owner parked on a barrier and, in a second round, parked inside a callback of the victim module; foreign threads polling the plain getters while the owner drives a module through its states",
                text="Contexts with identical module names run loops, pub/sub, timers, descriptor and task sources concurrently; every TSan report with a library frame is a violation, per-context counters must equal those of the same seeds run sequentially, and every module call from a thread not owning the context must fail without effect. Schedules are sampled; race detection is per observed execution.",
                ref="C14"),
    "C15": dict(tech="offline trace oracle: name table (live names, allow-replace), deny-pub/deny-sub/deny-ctx/persist/reserved-prefix rules applied to every restricted call with the callback stack known, refused sends tracked by unique payload so that 'nothing is delivered' is checked; perms profile (flag subsets x call classes x callback kinds x nesting); plain build, both modes",
                text="Every restricted call in generated histories is judged with the flags of the calling module and the callback it was issued from: it must fail and leave no trace (no delivery, same source count, loop not quit, module still registered); equal names are registered in every order against incumbents with and without allow-replace.",
                ref="C15"),
    "C07": dict(tech="offline trace oracle: context existence / persistence / finalised model against return codes and the context observed (m_ctx_name, m_ctx_len) after every record, teardown post-conditions (all modules ZOMBIE, one stop callback each), calls without context incl. before the first registration of the process, a second registration attempted from deny-ctx callbacks, replacement of the only module, registrations made by stop callbacks of the teardown; ctx_lifecycle and ctx_gone profiles on plain and asan builds",
                text="Generated register / finalize / loop / deregister cycles with every flag combination and module state mix are judged call by call; the asan build is included because an uncreated thread-specific key collides with the sanitizer's own keys.",
                ref="C07"),
    "C18": dict(tech="offline trace oracle with one-sided real-time bounds from harness timestamps taken right before/after every call: pairwise success bound b + r*dt + 2, -EAGAIN calls without effect (state, source count, delivery), no -EAGAIN without a bucket or after its removal, bounded recovery probe after > 25 periods of dispatching, user timers vs keyed-set model; tokenbucket profile; plain build",
                text="Throttled bursts from inside the running loop, exhaustion/recovery, re-configuration with user timers registered, rate 0 and stop/start are judged with a bound that is sound for any refill discipline (an exact tick-level model would over-specify); scheduling delays can only loosen the bound, never cause an alarm.",
                ref="C18"),
    "C17": dict(tech="offline trace oracle: handler-stack model per module checked at every handler invocation (4 distinguishable handler functions), become/unbecome admission and return codes (a call refused with -EAGAIN changes nothing), stack reset at stop; stash_become profile (throttled and deny-ctx variants); plain build, both modes",
                text="Every handler invocation, including stash replays, is attributed to the handler function that received it and compared with the top of the modelled stack; become/unbecome return codes and the reset at stop are judged call by call.",
                ref="C16/C17"),
}

NOT_YET = "check not built yet in this round (work in progress, see DESIGN.md §3 for the planned monitor)"


def main():
    props = [json.loads(l)["id"] for l in open(os.path.join(VERIF, "properties.jsonl"))]
    hooks_commits = []
    try:
        out = subprocess.run(["git", "-C", "/repo", "log", "--format=%h %s"], capture_output=True, text=True).stdout
        hooks_commits = [l.split()[0] for l in out.splitlines() if l.split(" ", 1)[1].startswith("verif-hook:")]
    except Exception:
        pass
    m = {
        "version": 1,
        "setup_cmd": "python3 vf/build.py plain asan tsan",
        "hooks": {
            "guard": "FEDEDP_LIBMODULE_VERIF",
            "enable": "vf/build.py compiles Lib/**.c from $VERIF_REPO (default /repo) directly with gcc -DFEDEDP_LIBMODULE_VERIF into static archives (plain / asan+ubsan / tsan) that the harnesses link",
            "baseline_off_cmd": "bin/baseline_off",
            "source_commits": hooks_commits,
            "add_only": True,
        },
        "engines": [
            {"name": "bin/check", "path": "bin/check", "serves_properties": sorted(CHECKS),
             "kind_free_text": "runtime monitoring: generated workloads executed against the real library built with sanitizers; reference models / offline trace oracles; see DESIGN.md"},
        ],
        "checks": [],
        "not_applicable": [],
        "notes": "Technique family: runtime monitoring and sanitizers only. Known findings and fixed defects: known_findings.json. Seeded changes used to validate the monitors: seeded/ and DESIGN.md §6.",
    }
    for pid in props:
        if pid in CHECKS:
            c = CHECKS[pid]
            m["checks"].append({
                "property_id": pid,
                "quick_cmd": "bin/check %s --tier quick" % pid,
                "thorough_cmd": "bin/check %s --tier thorough" % pid,
                "evidence_file": "evidence/%s.json" % pid,
                "replay_cmd_template": "bin/check %s --replay {path}" % pid,
                "engine": "bin/check",
                "level_claimed": {"category": EXPL, "text": c["text"], "design_ref": "DESIGN.md §3 " + c["ref"]},
                "level_note": TB,
                "technique": c["tech"],
            })
        else:
            m["not_applicable"].append({"property_id": pid, "reason": NOT_YET})
    with open(os.path.join(VERIF, "MANIFEST.json"), "w") as fh:
        json.dump(m, fh, indent=1)
    print("MANIFEST.json: %d checks, %d not_applicable" % (len(m["checks"]), len(m["not_applicable"])))


if __name__ == "__main__":
    main()

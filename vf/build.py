"""Build the library under test (from $VERIF_REPO, default /repo, *current working tree*)
and the harnesses, one sanitizer family per variant.  Cached by content hash."""
import fcntl
import glob
import hashlib
import os
import time
import shutil
import subprocess
import sys
from concurrent.futures import ThreadPoolExecutor

VERIF = os.path.dirname(os.path.dirname(os.path.abspath(__file__)))
REPO = os.environ.get("VERIF_REPO", "/repo")
BUILD_ROOT = os.environ.get("VERIF_BUILD_DIR", os.path.join(VERIF, ".build"))
GUARD = "FEDEDP_LIBMODULE_VERIF"

COMMON = ["-std=gnu11", "-D_GNU_SOURCE", "-D" + GUARD, "-g", "-fno-omit-frame-pointer",
          "-Wno-unused-result", "-w"]
VARIANTS = {
    "plain": ["-O1"],
    "asan": ["-O1", "-fsanitize=address,undefined", "-fno-sanitize-recover=all"],
    "tsan": ["-O1", "-fsanitize=thread"],
}
# -fsanitize=float-cast-overflow / pointer-subtract are deliberately not enabled: the comparators
# convert differences to int by design; C09/C11 judge the *result* of the comparison instead.

LIB_GROUPS = [
    ("CORE", ["Lib/core/*.c", "Lib/core/fs/fs_noop.c", "Lib/core/poll/epoll.c",
              "Lib/core/poll/cmn_linux.c"]),
    ("STRUCTS", ["Lib/structs/*.c"]),
    ("MEM", ["Lib/mem/*.c"]),
    ("THPOOL", ["Lib/thpool/*.c"]),
    ("OTHER", ["Lib/utils/*.c"]),
]
INCLUDES = ["Lib/core", "Lib/core/public", "Lib/core/fs", "Lib/core/poll", "Lib/utils",
            "Lib/structs", "Lib/structs/public", "Lib/mem", "Lib/mem/public", "Lib/thpool",
            "Lib/thpool/public"]


def lib_sources():
    out = []
    for ctx, pats in LIB_GROUPS:
        for p in pats:
            for f in sorted(glob.glob(os.path.join(REPO, p))):
                out.append((ctx, f))
    return out


def tree_hash():
    h = hashlib.sha256()
    files = []
    for root, _d, fs in os.walk(os.path.join(REPO, "Lib")):
        for f in fs:
            if f.endswith((".c", ".h", ".in")):
                files.append(os.path.join(root, f))
    for f in sorted(files):
        h.update(os.path.relpath(f, REPO).encode())
        with open(f, "rb") as fh:
            h.update(fh.read())
    return h.hexdigest()[:16]


def _run(cmd):
    p = subprocess.run(cmd, stdout=subprocess.PIPE, stderr=subprocess.STDOUT, text=True)
    if p.returncode != 0:
        raise RuntimeError("build failed: %s\n%s" % (" ".join(cmd), p.stdout))


def _gen_headers(d):
    """cmn.h / ctx.h are produced by CMake's configure_file and are not tracked: when the tree has none (a fresh
    worktree), derive them from the .in templates into the build directory (searched last)"""
    import re
    for sub in ("module", os.path.join("public", "module")):
        g = os.path.join(d, "gen", sub)
        os.makedirs(g, exist_ok=True)
        for name in ("cmn.h", "ctx.h"):
            src = os.path.join(REPO, "Lib/core/public/module", name + ".in")
            if os.path.exists(src):
                with open(src) as fh:
                    txt = re.sub(r"@[A-Za-z_]+@", "", fh.read())
                with open(os.path.join(g, name), "w") as fh:
                    fh.write(txt)
    return os.path.join(d, "gen")


def _flags(variant):
    d = os.path.join(BUILD_ROOT, tree_hash(), variant)
    os.makedirs(d, exist_ok=True)
    return COMMON + VARIANTS[variant] + ["-I" + os.path.join(REPO, i) for i in INCLUDES] + ["-I" + _gen_headers(d)]


def _prune(keep):
    try:
        ents = [e for e in os.listdir(BUILD_ROOT) if os.path.isdir(os.path.join(BUILD_ROOT, e))]
    except FileNotFoundError:
        return
    ents = [e for e in ents if e != keep]
    ents.sort(key=lambda e: os.path.getmtime(os.path.join(BUILD_ROOT, e)))
    now = time.time()
    for e in ents[:-6]:          # keep the six most recent other trees (~20 MB each) ...
        try:
            if now - os.path.getmtime(os.path.join(BUILD_ROOT, e)) < 3600:
                continue         # ... and never one used within the last hour: another check may be running from it
        except OSError:
            continue
        shutil.rmtree(os.path.join(BUILD_ROOT, e), ignore_errors=True)


def build_lib(variant):
    """returns path of static archive for the variant, building it if needed"""
    th = tree_hash()
    d = os.path.join(BUILD_ROOT, th, variant)
    lib = os.path.join(d, "libmodule.a")
    os.makedirs(d, exist_ok=True)
    with open(os.path.join(BUILD_ROOT, ".lock"), "w") as lk:
        fcntl.flock(lk, fcntl.LOCK_EX)
        if os.path.exists(lib):
            os.utime(os.path.join(BUILD_ROOT, th))
            return lib
        _prune(th)
        flags = _flags(variant)
        jobs = []
        for ctx, src in lib_sources():
            obj = os.path.join(d, os.path.relpath(src, REPO).replace("/", "_")[:-2] + ".o")
            jobs.append(["gcc"] + flags + ["-DLIBMODULE_LOG_CTX=" + ctx, "-c", src, "-o", obj])
        with ThreadPoolExecutor(16) as ex:
            list(ex.map(_run, jobs))
        objs = [j[-1] for j in jobs]
        tmp = lib + ".tmp"
        if os.path.exists(tmp):
            os.unlink(tmp)
        _run(["ar", "rcs", tmp] + objs)
        os.rename(tmp, lib)
    return lib


def build_harness(name, variant, sources, extra_flags=(), extra_link=()):
    """compile harness sources (paths relative to /verif/harness) against the variant"""
    lib = build_lib(variant)
    d = os.path.dirname(lib)
    h = hashlib.sha256()
    srcs = [os.path.join(VERIF, "harness", s) for s in sources]
    deps = srcs + sorted(glob.glob(os.path.join(VERIF, "harness", "*.h")))
    for s in deps:
        with open(s, "rb") as fh:
            h.update(fh.read())
    h.update(repr((extra_flags, extra_link)).encode())
    exe = os.path.join(d, "%s_%s" % (name, h.hexdigest()[:12]))
    with open(os.path.join(BUILD_ROOT, ".lock"), "w") as lk:
        fcntl.flock(lk, fcntl.LOCK_EX)
        if os.path.exists(exe):
            return exe
        for old in glob.glob(os.path.join(d, name + "_*")):
            os.unlink(old)
        cmd = (["gcc"] + _flags(variant) + list(extra_flags) + ["-I" + os.path.join(VERIF, "harness")]
               + srcs + [lib, "-o", exe + ".tmp", "-lpthread", "-ldl", "-lm"] + list(extra_link))
        _run(cmd)
        os.rename(exe + ".tmp", exe)
    return exe


if __name__ == "__main__":
    for v in (sys.argv[1:] or ["plain", "asan", "tsan"]):
        print(build_lib(v))

"""C13 oracle: priorities and batching.  Exact on *serialised* scenarios (every produced event is given enough poll
batches to be consumed before anything else changes): the handler must be invoked with exactly the accumulated events,
in arrival order, exactly when a HIGH event arrives, a NORMAL event arrives and the count reached the batch size, or the
batch timeout expires; LOW events never trigger.  Conservation (no loss / duplicate / reorder) on everything."""
from vf.model_common import resolve_slots, executed, Facts
from vf.model_pubsub import topic_matches

SRC_LOW, SRC_NORM, SRC_HIGH, SRC_ONESHOT = 1, 2, 4, 16
SIZE_MAX = (1 << 64) - 1


def check_c13(case, stats=None):
    recs = case.recs
    resolve_slots(recs)
    F = Facts(case.sc)
    V = []
    target = case.sc.meta.get("batch_target")
    if target is None:
        return V

    def bad(key, msg, r=None):
        V.append(("C13/" + key, msg + ((" (trace line %d: %s)" % (r.i, r.raw[:110])) if r is not None else "")))

    st = {}
    subs = {}               # topic idx -> flags (of target)
    size = 0
    timeout = 0
    pending = []            # model: accumulated (token, prio)
    expected = []           # list of batches (list of tokens) the model says must be handed over, in order
    arrivals = []           # all tokens in arrival order
    observed = []           # list of (batch tokens, B rec)
    calls = {}
    cur_batch = None
    unstash = 0
    timing = bool(case.sc.meta.get("batch_timeout_used"))
    loop_ended_at = []
    fdtok = {}

    must_immediate = []
    timed = []              # (token, arrival time us, timeout ns, settings epoch)
    epoch = [0]
    now_t = [0]

    prio_of = {}
    epoch_cfg = {}          # epoch -> (size, timeout) in force during it

    def arrive(tok, prio):
        nonlocal pending
        arrivals.append(tok)
        prio_of[tok] = prio
        epoch_cfg[epoch[0]] = (size, timeout)
        if timeout > 0:
            timed.append((tok, now_t[0], timeout, epoch[0]))
        if prio != "L" and size == 0 and timeout == 0 and not pending:
            must_immediate.append(tok)
        pending.append(tok)
        if prio == "H":
            expected.append(list(pending))
            pending = []
        elif prio == "L":
            return
        else:
            if size == 0 and timeout == 0:
                expected.append(list(pending))
                pending = []
            elif timeout != 0 and size == 0:
                return                  # only the timer flushes
            elif len(pending) >= size:
                expected.append(list(pending))
                pending = []

    ctx_loop = None
    flush_batches = []
    epoch_end = {}          # epoch -> time at which it ended
    quit_t = None
    for r in recs:
        now_t[0] = r.t
        if r.k == "<" and r.op in ("bsize", "btimeout", "stop", "pause", "dereg", "ctx_quit") and r.ret is not None and r.ret >= 0:
            sl_ = r.begin.fields.get("slots", []) if r.begin is not None else []
            if r.op == "ctx_quit" or (sl_ and sl_[0] == target):
                epoch_end[epoch[0]] = r.t
                epoch[0] += 1
        if r.k == "S":
            if r.ctx.get("loop") in ("0", "1"):
                ctx_loop = r.ctx["loop"]
            for m, (l, _n) in r.states.items():
                if m == target and st.get(m) != l and l in ("S", "Z"):
                    subs = {}
                    size, timeout = 0, 0
                    if pending:
                        if stats is not None:
                            stats["discarded_at_stop"] = stats.get("discarded_at_stop", 0) + len(pending)
                        expected.append(("DISCARD", list(pending)))
                        pending = []
                st[m] = l
        elif r.k == ">":
            calls[r.id] = r
            if r.op == "unstash":
                unstash += 1
        elif r.k == "<":
            c = calls.pop(r.id, None)
            if c is None:
                continue
            if c.op == "unstash":
                unstash -= 1
            if not executed(r):
                continue
            sl = c.fields.get("slots", [])
            ok = r.ret >= 0
            if c.op == "sub" and ok and sl and sl[0] == target:
                subs[c.args[1]] = c.args[2]
            elif c.op == "unsub" and ok and sl and sl[0] == target:
                subs.pop(c.args[1], None)
            elif c.op == "bsize" and sl and sl[0] == target:
                if ok:
                    size = c.args[1]
                elif r.ret != -11:     # (-EAGAIN: out of tokens; a refused setter has no effect)
                    bad("setter-failed", "m_mod_set_batch_size returned %d" % r.ret, r)
            elif c.op == "btimeout" and sl and sl[0] == target:
                if ok:
                    timeout = c.args[1]
            elif c.op in ("tell", "publish") and ok and sl and st.get(target) in ("R", "P"):
                pid = c.fields.get("pay")
                if c.op == "tell":
                    if len(sl) > 1 and sl[1] == target:
                        arrive(("ps", pid), "N")
                elif c.args[1] < 0:
                    arrive(("ps", pid), "N")
                else:
                    topic = F.topics[c.args[1]]
                    match = [fl for tix, fl in subs.items() if topic_matches(F.topics[tix], topic)]
                    if match:
                        fl = match[0]
                        arrive(("ps", pid), "H" if fl & SRC_HIGH else "L" if fl & SRC_LOW else "N")
            elif c.op == "fd_write" and ok and case.sc.meta.get("batch_fds", {}).get(c.args[0]) == target and st.get(target) == "R":
                fdtok[c.args[0]] = fdtok.get(c.args[0], 0) + 1
                arrive(("fd", c.args[0], fdtok[c.args[0]]), "H")
            elif c.op in ("ctx_loop",):
                loop_ended_at.append(r.i)
        elif r.k == "B" and r.kind == "evt" and r.slot == target and not unstash:
            cur_batch = ([], r)
            observed.append(cur_batch)
        elif r.k == "E" and r.kind == "evt" and r.slot == target:
            if cur_batch is not None and ctx_loop == "0":
                # final flush of a loop run: whatever is accumulated may be handed over now (tolerated)
                toks = [t for t in cur_batch[0] if t[0] in ("ps", "fd")]
                if toks and toks == pending[:len(toks)]:
                    pending = pending[len(toks):]
                    flush_batches.append(id(cur_batch[0]))
            cur_batch = None
        elif r.k == "V" and r.slot == target and cur_batch is not None and not unstash:
            if r.kind == "ps":
                if r.fields.get("sys") == "1":
                    cur_batch[0].append(("sys", r.fields.get("topic")))
                else:
                    cur_batch[0].append(("ps", int(r.fields.get("data", "-1"))))
            elif r.kind == "fd":
                k = int(r.fields.get("idx", "-9"))
                n = sum(1 for b, _r in observed for t in b if t[0] == "fd" and t[1] == k) + 1
                cur_batch[0].append(("fd", k, n))
            elif r.kind == "tmr":
                cur_batch[0].append(("tmr", r.fields.get("ns")))
    # ---- conservation: observed tokens are the arrivals, in order, each once
    flat = [t for b, _r in observed for t in b if t[0] in ("ps", "fd")]
    seen = set()
    for t in flat:
        if t in seen:
            bad("event-duplicated", "module %d was handed event %s twice" % (target, (t,)))
        seen.add(t)
    pos = {t: i for i, t in enumerate(arrivals)}
    last = -1
    for t in flat:
        if t not in pos:
            continue        # not produced through the modelled channels (C02's business)
        if pos[t] < last:
            bad("event-reordered", "module %d was handed %s after a later arrival" % (target, (t,)))
        last = max(last, pos[t])
    if stats is not None:
        stats["arrivals"] = stats.get("arrivals", 0) + len(arrivals)
        stats["invocations"] = stats.get("invocations", 0) + len(observed)
    if case.sc.meta.get("serialised") and timing:
        # a batch timeout that expires with events pending hands them over: an event that arrived while a timeout of T was
        # in force and then had more than 3T + 20 ms of undisturbed loop time must not have waited for the final flush
        nonflush0 = set(t for b, _r in observed if id(b) not in flush_batches for t in b)
        stopped0 = set(t for e in expected if isinstance(e, tuple) and e[0] == "DISCARD" for t in e[1])
        for tok, t_a, to_ns, ep in timed:
            end = epoch_end.get(ep)
            if end is None:
                continue
            if end - t_a > 3 * to_ns / 1000 + 20000 and tok not in nonflush0 and tok not in stopped0:
                bad("timeout-did-not-flush", "event %s arrived while module %d had a batch timeout of %d ns; the loop then ran undisturbed for %d us but the handler was never invoked for it before the final flush" % ((tok,), target, to_ns, end - t_a))
                break
        # while only a batch timeout is in force (no size) the handler runs for normal/low events at most once per expiry of
        # the (periodic) timer: more invocations without a high-priority event in them than timer periods fit into that
        # stretch (+1) means events were handed over without waiting for the timeout
        starts = {}
        prev_end = 0
        for ep in sorted(epoch_end):
            starts[ep] = prev_end
            prev_end = epoch_end[ep]
        for ep, (sz, to_ns) in epoch_cfg.items():
            if to_ns <= 0 or sz != 0 or ep not in epoch_end:
                continue
            t0, t1 = starts.get(ep, 0), epoch_end[ep]
            n = 0
            for b, br in observed:
                if id(b) in flush_batches or not (t0 <= br.t <= t1):
                    continue
                toks = [t for t in b if t in prio_of]
                if toks and all(prio_of[t] != "H" for t in toks):
                    n += 1
            # (a) deterministic: an expiry hands over everything accumulated in ONE invocation, and one poll batch carries at
            # most one expiry of the module's timer: two such invocations with no driver step in between cannot both be due
            # to the timer
            run_n = 0
            for rr in recs:
                if rr.k == "B" and rr.kind == "evt" and rr.slot == 0:
                    run_n = 0
                elif rr.k == "B" and rr.kind == "evt" and rr.slot == target and t0 <= rr.t <= t1:
                    bb = next((b for b, br in observed if br is rr), None)
                    if bb is None or id(bb) in flush_batches:
                        continue
                    toks = [t for t in bb if t in prio_of]
                    if toks and all(prio_of[t] != "H" for t in toks):
                        run_n += 1
                        if run_n >= 2:
                            bad("timeout-not-awaited", "module %d: two handler invocations carrying no high-priority event within one poll batch while only a batch timeout of %d ns (no batch size) was in force: events are handed over without waiting for the timeout" % (target, to_ns), rr)
                            break
                    else:
                        run_n = 0
            if V and V[-1][0].endswith("timeout-not-awaited"):
                break
            # (b) by count
            bound = (t1 - t0) * 1000.0 / to_ns + 1
            if stats is not None and n:
                stats["timeout_only_invocations_judged"] = stats.get("timeout_only_invocations_judged", 0) + n
            if n > bound + 1e-9:
                bad("timeout-not-awaited", "module %d: %d handler invocations carrying no high-priority event within %d us during which only a batch timeout of %d ns (no batch size) was in force: at most %.1f expiries fit" % (target, n, t1 - t0, to_ns, bound))
                break
        # with neither a batch size nor a batch timeout in force a normal/high event is delivered at once: it must not
        # have waited for the final flush of the run
        nonflush = set(t for b, _r in observed if id(b) not in flush_batches for t in b)
        stopped_tokens = set(t for e in expected if isinstance(e, tuple) and e[0] == "DISCARD" for t in e[1])
        for t in must_immediate:
            if t not in nonflush and t not in stopped_tokens:
                bad("normal-event-not-delivered", "event %s arrived while module %d had neither a batch size nor a batch timeout configured, but its handler was not invoked for it (it only surfaced, if at all, in the final flush)" % ((t,), target))
                break
    if not case.sc.meta.get("serialised") or timing:
        return V
    # ---- exact comparison of batch boundaries
    exp = []
    discarded = set()
    for e in expected:
        if isinstance(e, tuple) and e[0] == "DISCARD":
            discarded.update(e[1])
        else:
            exp.append(e)
    obs = [[t for t in b if t[0] in ("ps", "fd") and t in pos] for b, _r in observed if id(b) not in flush_batches]
    obs = [b for b in obs if b]
    for t in flat:
        if t in discarded:
            bad("discarded-event-delivered", "event %s was still accumulated when module %d stopped but was delivered afterwards" % ((t,), target))
    # tolerated: one final invocation at loop stop handing over whatever is still accumulated
    i = 0
    for b in obs:
        if i < len(exp) and b == exp[i]:
            i += 1
            if stats is not None:
                stats["batches_matched"] = stats.get("batches_matched", 0) + 1
                stats["batch_len_%d" % min(len(b), 8)] = stats.get("batch_len_%d" % min(len(b), 8), 0) + 1
            continue
        # a flush at loop stop: the batch is exactly the accumulated-but-not-due events (a prefix of what the model holds)
        rest = [t for e in exp[i:] for t in e] + list(pending)
        if b == rest[:len(b)] and _is_flush(observed, obs, b, recs):
            # consume: re-split the model's remaining expectation
            consumed = len(b)
            new_exp = []
            for e in exp[i:]:
                if consumed >= len(e):
                    consumed -= len(e)
                elif consumed:
                    new_exp.append(e[consumed:])
                    consumed = 0
                else:
                    new_exp.append(e)
            if consumed:
                pending = pending[consumed:]
            exp = exp[:i] + new_exp
            continue
        want = exp[i] if i < len(exp) else None
        bad("wrong-batch", "handler invocation #%d of module %d received %s; the priority/batch-size rules say the next invocation must carry %s (batch size and priorities as configured at that time)" % (obs.index(b), target, b, want))
        return V
    if i < len(exp):
        # invocations that never happened although due
        bad("due-invocation-missing", "module %d: %d due handler invocations never happened, first missing batch %s" % (target, len(exp) - i, exp[i]))
    return V


def _is_flush(observed, obs, b, recs):
    """the invocation containing batch b happened while the context reported it was no longer looping (final flush)"""
    for bt, br in observed:
        toks = [t for t in bt if t[0] in ("ps", "fd")]
        if toks[:len(b)] == b or [t for t in toks if t in b] == b:
            # state observed right after the B record
            j = br.i + 1
            while j < len(recs) and recs[j].k not in ("S", "V", "E"):
                j += 1
            # look back for the last S record
            k = br.i + 1
            last = None
            for x in recs[:br.i + 3][::-1]:
                if x.k == "S":
                    last = x
                    break
            return last is not None and last.ctx.get("loop") == "0"
    return False

"""Shared driver for the checks that execute core_exec scenarios and judge traces offline."""
import hashlib
import os
import re
from vf import corerun, framework as fw, trace as tr

_TS = re.compile(r" ts=\d+")


def signature(trace_text):
    """hash of the normalised trace: timestamps stripped"""
    h = hashlib.sha1()
    for ln in trace_text.splitlines():
        sp = ln.split(" ", 1)
        if len(sp) == 2:
            h.update(_TS.sub("", sp[1]).encode())
            h.update(b"\n")
    return h.hexdigest()[:16]


class Case:
    """one executed scenario"""
    __slots__ = ("sc", "mode", "run", "recs", "problems", "cls", "seed", "profile")


def execute(cases, variant, timeout=120, env_extra=None):
    """cases: list of Case with .sc (gen.Sc) and .mode; fills .run/.recs"""
    texts = [c.sc.text(c.mode) for c in cases]
    runs = corerun.run_many(texts, variant, timeout=timeout, env_extra=env_extra)
    for c, r in zip(cases, runs):
        c.run = r
        if r.rc == 3 or r.rc == "timeout":
            # watchdog / trace limit: the verdict is "inconclusive" whatever the trace says; keep only its tail (a runaway
            # execution can have written hundreds of megabytes)
            r.trace = "\n".join(r.trace[-400000:].splitlines()[1:])
        if os.environ.get("VF_TRACE_STATS"):
            with open(os.environ["VF_TRACE_STATS"], "a") as f:
                f.write("%d %s %s\n" % (r.trace.count("\n"), c.profile, c.seed))
        c.recs, c.problems = tr.parse(r.trace)
    return cases


def harness_problems(case):
    out = [p for p in case.problems]
    for r in case.recs:
        if r.k == "!" and r.extra and not r.extra.startswith("payload"):
            out.append(r.extra)
    return out


def outcome(case):
    """'ok' | 'watchdog' | ('crash', key, detail)"""
    r = case.run
    if r.rc == 0:
        return "ok"
    if r.rc == "timeout" or r.rc == 3 or any(x.k == "W" for x in case.recs):
        return "watchdog"
    ce = fw.classify_exit(r.rc, r.trace, r.err)
    if ce:
        return ("crash", ce[0], ce[1])
    return ("crash", "exit-%s" % r.rc, r.err[-1500:])


def replay_of(case, note=""):
    return {"scenario": case.sc.text(case.mode), "mode": case.mode, "variant": case.run.variant if case.run else None,
            "profile": case.profile, "seed": case.seed, "trace_tail": "\n".join(case.run.trace.splitlines()[-80:]) if case.run else "",
            "stderr_tail": case.run.err[-3000:] if case.run else "", "note": note,
            "how": "bin/check <ID> --replay <this file>  (feeds 'scenario' to core_exec of the named variant)"}


def sample_of(case, maxlines=40):
    return {"profile": case.profile, "seed": case.seed, "mode": case.mode,
            "scenario_head": case.sc.text(case.mode).splitlines()[:maxlines],
            "trace_excerpt": tr.abbreviate(case.run.trace, maxlines)}


CHUNK = 2000        # (even: the two driving modes of one scenario are adjacent cases and must be judged together)


def run_checked(res, cases, variant, oracle, relevant, prefix, known_class=None, timeout=120, retry_watchdog=True, post=None,
                after_chunk=None):
    """execute cases, apply oracle(case) -> list[(key, detail)], fold into res.
    relevant(case) -> bool says whether the case contains events the property is about (counts as non-trivial).
    known_class: dict profile-name -> finding key; any violation in such a scenario is attributed to that key.
    The cases are executed and judged in chunks, and the trace of a judged case is dropped (a thorough run holds tens of
    thousands of traces: gigabytes); post(case) is called right after a case was judged and after_chunk(list) after each chunk,
    while the traces are still there."""
    for k in range(0, len(cases), CHUNK):
        chunk = cases[k:k + CHUNK]
        _run_chunk(res, chunk, variant, oracle, relevant, prefix, known_class, timeout, retry_watchdog, post)
        if after_chunk is not None:
            after_chunk(chunk)
        for c in chunk:
            if c.run is not None:
                c.run.trace = ""
                c.run.text = ""
            c.recs = None
    return cases


def _run_chunk(res, cases, variant, oracle, relevant, prefix, known_class, timeout, retry_watchdog, post):
    execute(cases, variant, timeout)
    retry = []
    for c in cases:
        o = outcome(c)
        if o == "watchdog" and retry_watchdog:
            retry.append(c)
    if retry:
        execute(retry, variant, timeout)
    for c in cases:
        res.evaluations += 1
        hp = harness_problems(c)
        if hp:
            raise RuntimeError("harness problem in %s seed %s: %s" % (c.profile, c.seed, hp[:3]))
        o = outcome(c)
        if o == "watchdog":
            res.inconclusive.append({"what": "watchdog", "profile": c.profile, "seed": c.seed, "mode": c.mode})
            continue
        viol = []
        if o != "ok":
            viol.append((prefix + "/" + o[1], o[2]))
        else:
            try:
                viol += oracle(c)
            except Exception as e:       # oracle crash = harness failure, never a verdict
                raise RuntimeError("oracle failed on %s seed %s mode %s: %r" % (c.profile, c.seed, c.mode, e))
        if relevant(c):
            res.signatures.add(signature(c.run.trace))
            res.count("nontrivial_cases")
        if len(res.samples) < 3 and relevant(c) and o == "ok":
            res.samples.append(sample_of(c))
        # one replay object per case, and at most a few witnesses per key and case: a broken tree can violate the same rule
        # thousands of times inside one burst scenario (each copy of the scenario text used to be kept -> gigabytes)
        rp = replay_of(c) if viol else None
        per_key = {}
        for key, detail in viol:
            if known_class and c.profile in known_class:
                key = known_class[c.profile]
            per_key[key] = per_key.get(key, 0) + 1
            if per_key[key] > 3:
                continue
            res.violate(key, "%s [profile=%s seed=%s mode=%s variant=%s]" % (detail, c.profile, c.seed, c.mode, variant), rp)
        for key, n in per_key.items():
            if n > 3:
                res.count("further_violations_of_a_key_in_the_same_case", n - 3)
        if post is not None and o == "ok":
            post(c)
    return cases


def replay_file(path):
    import json
    import sys
    d = json.load(open(path))
    rp = d["replay"]
    if "scenario" in rp:
        runs = corerun.run_many([rp["scenario"]], rp.get("variant") or "plain")
        print(runs[0].trace[-4000:])
        print(runs[0].err[-3000:], file=sys.stderr)
        sys.exit(0 if runs[0].rc == 0 else 1)
    import subprocess
    sys.exit(subprocess.call(rp["cmd"]))

"""C15 oracle: unique names / allow-replace, deny flags, persist, reserved topic prefix."""
from vf.model_common import resolve_slots, executed, Facts

MOD_ALLOW_REPLACE, MOD_PERSIST = 0x100, 0x200
MOD_DENY_CTX, MOD_DENY_PUB, MOD_DENY_SUB = 0x10000, 0x20000, 0x40000
EEXIST = -17
CTX_OPS = ("ctx_quit", "ctx_register", "ctx_deregister", "ctx_len", "ctx_name", "ctx_stats", "ctx_fd", "ctx_tick", "ctx_finalize",
           "ctx_dispatch", "ctx_loop", "ctx_userdata", "ctx_logger")


def check_c15(case, stats=None):
    recs = case.recs
    resolve_slots(recs)
    F = Facts(case.sc)
    V = []

    def bad(key, msg, r=None):
        V.append(("C15/" + key, msg + ((" (trace line %d: %s)" % (r.i, r.raw[:110])) if r is not None else "")))

    st = {}
    srclen = {}
    ctxs = {}
    calls = []
    cbs = []
    denied_pay = {}      # payload id -> reason: sends that must not be delivered
    quit_refused = []
    looping = False
    loop_known = True
    live_by_name = {}    # name -> slot (registered, not zombie)
    pend = []

    def cnt(k):
        if stats is not None:
            stats[k] = stats.get(k, 0) + 1

    for r in recs:
        if r.k == "S":
            for m, (l, n) in r.states.items():
                if st.get(m) != l:
                    if l == "Z" and live_by_name.get(F.name.get(m)) == m:
                        live_by_name.pop(F.name.get(m), None)
                st[m] = l
                srclen[m] = n
            ctxs = dict(r.ctx)
            if r.ctx.get("loop") in ("0", "1"):
                looping = r.ctx["loop"] == "1"
                loop_known = True
                if looping:
                    for oc in calls:
                        oc.fields["_starting"] = False      # from here on the observed flag tells
            else:
                loop_known = False      # (inside a deny-ctx callback the context cannot be asked: the loop may have stopped meanwhile)
        elif r.k == "B":
            cbs.append(r)
        elif r.k == "E":
            if cbs:
                cbs.pop()
        elif r.k == ">":
            calls.append(r)
            sl = r.fields.get("slots", [])
            r.fields["_st"] = dict(st)
            r.fields["_srclen"] = dict(srclen)
            r.fields["_ctx"] = dict(ctxs)
            # a top-level m_ctx_loop() / m_ctx_dispatch() entered on an idle context starts the loop: the callbacks it runs
            # before the context was first observed looping (evaluation / start of the IDLE modules) run in a looping context,
            # whatever the observation says there
            if r.op in ("ctx_loop", "ctx_dispatch") and r.depth == 0 and loop_known and not looping and ctxs.get("ctx") == "1":
                r.fields["_starting"] = True
            starting = any(oc.fields.get("_starting") for oc in calls if oc is not r)
            r.fields["_loop"] = (looping and loop_known) or (starting and bool(cbs))
            r.fields["_live"] = dict(live_by_name)
            r.fields["_inner"] = cbs[-1].slot if cbs else None
        elif r.k == "<":
            c = None
            for j in range(len(calls) - 1, -1, -1):
                if calls[j].id == r.id:
                    c = calls.pop(j)
                    break
            if c is None or not executed(r):
                continue
            sl = c.fields.get("slots", [])
            m = sl[0] if sl else None
            fl = F.flags.get(m, 0) if m is not None else 0
            known = m in c.fields["_st"] and c.fields["_st"].get(m) != "Z"
            if c.op == "ctx_deregister" and r.ret == 0:
                for oc in calls:
                    oc.fields["_nested_teardown"] = True      # the context went away during these still-open calls
            # --- deny pub
            if c.op in ("tell", "publish", "pill") and known:
                if fl & MOD_DENY_PUB:
                    cnt("deny_pub_calls")
                    if r.ret >= 0:
                        bad("deny-pub-call-accepted", "%s by module %d (M_MOD_DENY_PUB) returned %d" % (c.op, m, r.ret), r)
                    if c.fields.get("pay"):
                        denied_pay[c.fields["pay"]] = "sender %d carries M_MOD_DENY_PUB" % m
                if c.op == "publish" and c.args[1] >= 0 and F.topics[c.args[1]].startswith("LIBMODULE_"):
                    cnt("reserved_topic_publishes")
                    if r.ret >= 0:
                        bad("reserved-topic-publish-accepted", "publishing on %s by module %d returned %d" % (F.topics[c.args[1]], m, r.ret), r)
                    if c.fields.get("pay"):
                        denied_pay[c.fields["pay"]] = "reserved system topic"
            # --- deny sub
            if c.op in ("sub", "unsub") and known and (fl & MOD_DENY_SUB):
                cnt("deny_sub_calls")
                if r.ret >= 0:
                    bad("deny-sub-call-accepted", "%s by module %d (M_MOD_DENY_SUB) returned %d" % (c.op, m, r.ret), r)
                c.fields["_check_srclen"] = True
            # --- deny ctx: context calls issued from a callback of a deny-ctx module
            inner = c.fields.get("_inner")
            if c.op in CTX_OPS and inner is not None and (F.flags.get(inner, 0) & MOD_DENY_CTX):
                cnt("deny_ctx_calls")
                ok_fail = r.ret < 0 or (c.op in ("ctx_name", "ctx_userdata") and r.ret == 0)
                if not ok_fail:
                    bad("deny-ctx-call-accepted", "%s issued from a callback of module %d (M_MOD_DENY_CTX) returned %d" % (c.op, inner, r.ret), r)
                if c.op == "ctx_quit":
                    quit_refused.append((r.i, c.args[0]))
            # --- names: a lookup by name finds exactly the live module registered under it
            quiet = not any(oc.op in ("dereg", "reg", "ctx_deregister", "stop", "start") for oc in calls) and not any((F.flags.get(b.slot, 0) & MOD_DENY_CTX) or b.kind != "evt" for b in cbs)
            if c.op == "lookup" and known and len(sl) > 1 and quiet and c.fields["_ctx"].get("ctx") == "1":
                name = F.name.get(sl[1])
                exp = c.fields["_live"].get(name, -1)
                if exp != -1 and c.fields["_st"].get(exp) in (None, "Z"):
                    exp = -1
                cnt("lookups_judged")
                if exp == -1 and r.ret >= 0:
                    bad("lookup-found-dead-name", "m_mod_lookup('%s') returned module %d although no live module is registered under that name" % (name, r.ret), r)
                elif exp != -1 and r.ret != exp and F.name.get(r.ret) != name:
                    bad("lookup-missed-live-module", "m_mod_lookup('%s') returned %s although module %d is registered under that name and alive (%s)" % (name, "nothing" if r.ret < 0 else "module %d" % r.ret, exp, c.fields["_st"].get(exp)), r)
            # --- persist
            if c.op == "dereg" and known and (fl & MOD_PERSIST) and c.fields["_loop"]:
                cnt("persist_dereg_while_looping")
                if r.ret >= 0:
                    bad("persistent-module-deregistered", "m_mod_deregister on persistent module %d while its context loops returned %d" % (m, r.ret), r)
                c.fields["_check_alive"] = m
            # --- names
            if c.op == "reg" and m is not None:
                name = F.name.get(m)
                inc = c.fields["_live"].get(name)
                # a module whose deregistration is in progress (we are inside its on_stop) already left the context
                leaving = set()
                for oc in calls:
                    osl = oc.fields.get("slots", [])
                    if oc.op == "dereg" and osl:
                        leaving.add(osl[0])
                    if oc.op == "ctx_deregister":
                        leaving.update(st)
                    if oc.op == "reg" and osl:
                        leaving.add(oc.fields["_live"].get(F.name.get(osl[0])))
                if inc in leaving:
                    inc = None
                    if r.ret == 0:
                        live_by_name[name] = m
                if inc is not None and inc != m and c.fields["_st"].get(inc) not in (None, "Z"):
                    cnt("same_name_registrations")
                    if F.flags.get(inc, 0) & MOD_ALLOW_REPLACE:
                        cnt("replacements")
                        if r.ret == 0:
                            c.fields["_replaced"] = inc
                            live_by_name[name] = m
                        elif live_by_name.get(name) not in (inc, None):
                            pass        # the name was taken again (from the incumbent's stop callback) while it was being replaced
                        elif r.ret != -11 and not (F.flags.get(inc, 0) & MOD_PERSIST and c.fields["_loop"]) and c.fields["_ctx"].get("ctx") == "1" and not (inner is not None and F.flags.get(inner, 0) & MOD_DENY_CTX) and not c.fields.get("_nested_teardown"):
                            bad("replacement-refused", "registering module %d under the name of module %d, which allows replacement, returned %d" % (m, inc, r.ret), r)
                    else:
                        if r.ret != EEXIST and not (r.ret < 0 and (c.fields["_ctx"].get("ctx") != "1" or (inner is not None and F.flags.get(inner, 0) & MOD_DENY_CTX))):
                            bad("duplicate-name-accepted" if r.ret >= 0 else "duplicate-name-wrong-error", "registering module %d under the live name '%s' of module %d (no allow-replace) returned %d, expected -EEXIST" % (m, name, inc, r.ret), r)
                        c.fields["_check_alive"] = inc
                elif r.ret == 0:
                    live_by_name[name] = m
            # post-conditions judged at the next observation
            c.fields["_ret"] = r.ret
            pend.append(c)
        elif r.k == "V" and r.kind == "ps" and r.fields.get("sys") == "0":
            try:
                pid = int(r.fields.get("data", "0"))
            except ValueError:
                pid = -1
            if pid in denied_pay:
                bad("denied-message-delivered", "payload %d was delivered to module %d although its send had to be refused (%s)" % (pid, r.slot, denied_pay[pid]), r)
        # judge post-conditions once the observation after the call is in
        if r.k != "S" and r.k != "<":
            _post(pend, st, srclen, ctxs, bad)
    _post(pend, st, srclen, ctxs, bad)
    # a refused quit must not end the loop with its code
    for r in recs:
        if r.k == "<" and r.op == "ctx_loop" and executed(r):
            for (i, code) in quit_refused:
                acc = [x for x in recs[:r.i] if x.k == "<" and x.op == "ctx_quit" and x.ret == 0 and x.begin is not None and x.begin.i > (r.begin.i if r.begin else 0)]
                if r.begin is not None and r.begin.i < i < r.i and not acc:
                    bad("denied-quit-had-effect", "the loop ended (returned %d) although the only quit request came from a deny-ctx module's callback" % r.ret, r)
    return V


def _post(pend, st, srclen, ctxs, bad):
    while pend:
        c = pend.pop()
        if c.fields.get("_check_srclen"):
            m = c.fields["slots"][0]
            a, b = c.fields["_srclen"].get(m), srclen.get(m)
            if a is not None and b is not None and a >= 0 and b >= 0 and a != b and st.get(m) == c.fields["_st"].get(m):
                bad("denied-subscription-had-effect", "%s by deny-sub module %d changed its source count from %d to %d" % (c.op, m, a, b), c.end or c)
        if "_check_alive" in c.fields:
            m = c.fields["_check_alive"]
            if c.fields["_st"].get(m) not in (None, "Z") and st.get(m) == "Z" and c.fields["_ret"] < 0:
                bad("refused-call-had-effect", "%s returned %d but module %d became ZOMBIE" % (c.op, c.fields["_ret"], m), c.end or c)
        if "_replaced" in c.fields:
            inc = c.fields["_replaced"]
            if st.get(inc) not in ("Z", None):
                bad("replaced-module-still-registered", "module %d was replaced by a registration under its name but is observed %s, not ZOMBIE" % (inc, st.get(inc)), c.end or c)

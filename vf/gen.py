"""Scenario generators for core_exec.  A scenario is plain text (see harness/core_exec.c: parse()).

Common shape ("driven" scenario): slot 0 is a *driver* module holding an always-readable eventfd ("kicker");
its k-th handler invocation executes step k, the last step requests quit.  The same text runs under the
blocking loop (ctx_loop) or as a dispatch loop (ctx_dispatch_until), which is what the two-mode differential uses.
"""
import random

# flags (public/module/mod.h)
SRC_LOW, SRC_NORM, SRC_HIGH, SRC_AUTOFREE, SRC_ONESHOT, SRC_DUP = 1, 2, 4, 8, 16, 32
SRC_FD_AUTOCLOSE = 1 << 16
MOD_NAME_DUP, MOD_NAME_AUTOFREE = 1, 2
MOD_ALLOW_REPLACE, MOD_PERSIST, MOD_UD_AUTOFREE = 0x100, 0x200, 0x400
MOD_DENY_CTX, MOD_DENY_PUB, MOD_DENY_SUB = 0x10000, 0x20000, 0x40000
CTX_NAME_DUP, CTX_NAME_AUTOFREE, CTX_PERSIST, CTX_UD_AUTOFREE = 1, 2, 4, 8
PS_AUTOFREE = 1
AUTOFREE_PAY_BASE = 100000

SYS_TOPICS = ["LIBMODULE_CTX_STARTED", "LIBMODULE_CTX_STOPPED", "LIBMODULE_CTX_TICK", "LIBMODULE_MOD_STARTED",
              "LIBMODULE_MOD_STOPPED"]


class Sc:
    """scenario builder"""

    def __init__(self, mode="loop", note=""):
        self.mode = mode
        self.note = note
        self.mods = {}        # slot -> (name, flags, hooks)
        self.topics = []
        self.paths = 0
        self.main = []
        self.cbs = {}         # (slot, kind, n) -> dict(ops=[], ret=1, errno=-1)
        self.next_pay = 1
        self.next_apay = AUTOFREE_PAY_BASE
        self.next_ud = 1
        self.meta = {}

    def mod(self, slot, name, flags=0, hooks=7):
        self.mods[slot] = (name, flags, hooks)
        return slot

    def topic(self, s):
        if s in self.topics:
            return self.topics.index(s)
        self.topics.append(s)
        return len(self.topics) - 1

    def pay(self, autofree=False):
        if autofree:
            self.next_apay += 1
            return self.next_apay
        self.next_pay += 1
        if self.next_pay >= 60000:
            self.next_pay = 2
        return self.next_pay

    def ud(self):
        self.next_ud += 1
        return self.next_ud

    def cb(self, slot, kind, n, ops, ret=1, errno=-1):
        self.cbs[(slot, kind, n)] = dict(ops=list(ops), ret=ret, errno=errno)

    def cb_get(self, slot, kind, n):
        return self.cbs.setdefault((slot, kind, n), dict(ops=[], ret=1, errno=-1))

    def text(self, mode=None):
        mode = mode or self.mode
        out = ["mode %s" % mode]
        if self.note:
            out.append("# " + self.note)
        for slot in sorted(self.mods):
            n, f, h = self.mods[slot]
            out.append("mod %d %s %x %d" % (slot, n, f, h))
        for i, t in enumerate(self.topics):
            out.append("topic %d %s" % (i, t))
        for i in range(self.paths):
            out.append("path %d" % i)
        out.append("script main")
        for op in self.main:
            if op[0] == "LOOP":
                if mode == "loop":
                    out.append("ctx_loop")
                else:
                    out.append("ctx_dispatch_until %d %d" % (op[1] if len(op) > 1 else 20000, op[2] if len(op) > 2 else 0))
            else:
                out.append(" ".join(str(x) for x in op))
        out.append("end")
        for (slot, kind, n), d in sorted(self.cbs.items(), key=lambda kv: (kv[0][0], kv[0][1], str(kv[0][2]))):
            out.append("script cb %d %s %s ret=%d errno=%d" % (slot, kind, n, d["ret"], d["errno"]))
            for op in d["ops"]:
                out.append(" ".join(str(x) for x in op))
            out.append("end")
        return "\n".join(out) + "\n"


def without_observation_refs(sc):
    """same scenario, but the harness gives up its observation reference right after every registration: the handle
    handed out by m_mod_register() is then the only user reference, so memory really goes away when the scenario lets go
    of a module (the state-based oracles go blind on such a scenario; C04 judges it by sanitizer and allocator only)"""
    def tr(ops):
        out = []
        for op in ops:
            out.append(op)
            if op[0] == "reg":
                out.append(("obs_drop_keep_handle", op[1]))
        return out
    sc.main = tr(sc.main)
    for d in sc.cbs.values():
        d["ops"] = tr(d["ops"])
    sc.note += " [no observation references]"
    return sc


DRV = 0
KICK = 0          # ufd index of the kicker


def driven_skeleton(sc, ctx_flags=0):
    sc.mod(DRV, "drv", 0, 0)
    sc.main += [("ctx_register", 0, ctx_flags), ("fd_open", KICK, 1, 1), ("fd_write", KICK), ("reg", DRV),
                ("fd_reg", DRV, KICK, 0, 1), ("start", DRV)]


def driven_finish(sc, steps, quit_code=None, rng=None, teardown=True, slots=None, drop_order=None, last_ops=(), after_quit=()):
    """install steps into the driver's handler scripts and append loop + teardown to main"""
    code = quit_code if quit_code is not None else (rng.randrange(0, 200) if rng else 0)
    for k, ops in enumerate(steps):
        sc.cb(DRV, "evt", k, ops)
    twice = [("ctx_quit", rng.randrange(0, 256))] if (rng and rng.random() < 0.3) else []    # the last request wins
    sc.cb(DRV, "evt", len(steps), list(last_ops) + twice + [("ctx_quit", code)] + list(after_quit))
    sc.cb(DRV, "evt", "*", [("ctx_quit", code)])
    sc.main.append(("LOOP",))
    sc.meta["quit_code"] = code
    if teardown:
        slots = slots if slots is not None else sorted(sc.mods)
        order = list(slots)
        if rng:
            rng.shuffle(order)
        for s in order:
            sc.main.append(("dereg", s))
        sc.main.append(("ctx_deregister",))
        order2 = list(slots)
        if rng:
            rng.shuffle(order2)
        # release retained events, then observation refs, in random order
        sc.main.append(("RELEASE_ALL",))
        for s in order2:
            sc.main.append(("obs_drop", s))
        for u in range(0, sc.meta.get("max_ufd", 16)):
            sc.main.append(("fd_close", u))
        sc.main.append(("quiesce",))


def finalize_main(sc, nretained=40):
    """expand pseudo ops"""
    out = []
    for op in sc.main:
        if op[0] == "RELEASE_ALL":
            for r in range(nretained):
                out.append(("evt_release", r))
        else:
            out.append(op)
    sc.main = out


class Prog:
    """light generator-side model to keep random ops meaningful (it is NOT an oracle)"""

    def __init__(self, rng, sc, weights, nmods, opts=None):
        self.r = rng
        self.sc = sc
        self.w = weights
        self.opts = opts or {}
        self.slots = list(range(1, nmods + 1))
        self.ufds = []            # open user fd indexes (not the kicker)
        self.next_ufd = 1
        self.timers = {}
        self.tids = 0
        self.nret = 0
        self.topics_lit = [sc.topic(t) for t in ("alpha", "beta", "gamma", "ab1", "ab2")]
        self.topics_re = [sc.topic(t) for t in ("^ab.*", "[ab]l.*", "g.mma", ".*")]
        self.topics_sys = [sc.topic(t) for t in SYS_TOPICS]
        self.subs = {s: set() for s in self.slots}
        # preconditions the generator respects (see DESIGN.md §2):
        #  - a user descriptor is registered by one module only (epoll cannot poll it twice; an auto-close on one
        #    registration would pull it from under the other)
        #  - modules owning task sources are never stopped/paused/deregistered while the loop runs (known finding
        #    "task outlives its source"); the hostile profile of C04 does it on purpose
        self.fd_owner = {}
        self.task_slots = set(self.opts.get("task_slots", []))
        self.life_slots = [x for x in self.slots if x not in self.task_slots] or self.slots

    def slot(self):
        return self.r.choice(self.slots)

    def any_slot(self, self_slot=None):
        # in callbacks, prefer "self" (-1) half of the time
        if self_slot is not None and self.r.random() < 0.5:
            return -1
        return self.slot()

    def src_flags(self, allow_oneshot=True, allow_autofree=True):
        f = 0
        x = self.r.random()
        if x < 0.15:
            f |= SRC_LOW
        elif x < 0.3:
            f |= SRC_HIGH
        elif x < 0.45:
            f |= SRC_NORM
        if allow_oneshot and self.r.random() < self.opts.get("p_oneshot", 0.15):
            f |= SRC_ONESHOT
        if allow_autofree and self.r.random() < self.opts.get("p_src_autofree", 0.1):
            f |= SRC_AUTOFREE
        return f

    def pick(self):
        tot = sum(self.w.values())
        x = self.r.random() * tot
        for k, v in self.w.items():
            x -= v
            if x <= 0:
                return k
        return next(iter(self.w))

    def op(self, where, self_slot=None):
        """returns a list of ops (possibly empty). where: 'idle' | 'step' | 'cb'"""
        r = self.r
        sc = self.sc
        cat = self.pick()
        s = self.any_slot(self_slot)
        real = self_slot if s == -1 else s
        if cat in ("lifecycle", "dereg", "pill") and (real in self.task_slots):
            s = r.choice(self.life_slots)
            real = s
            if real in self.task_slots:
                return []
        if cat == "lifecycle":
            return [(r.choice(["start", "pause", "resume", "stop", "start", "stop", "pause", "resume"]), s)]
        if cat == "dereg":
            return [("dereg", s)]
        if cat == "tell":
            af = r.random() < self.opts.get("p_autofree", 0.25)
            frm = self.any_slot(self_slot)
            return [("tell", frm, self.slot(), sc.pay(af), PS_AUTOFREE if af else 0)]
        if cat == "publish":
            af = r.random() < self.opts.get("p_autofree", 0.25)
            t = r.choice(self.topics_lit)
            return [("publish", self.any_slot(self_slot), t, sc.pay(af), PS_AUTOFREE if af else 0)]
        if cat == "broadcast":
            af = r.random() < self.opts.get("p_autofree", 0.25)
            return [("publish", self.any_slot(self_slot), -1, sc.pay(af), PS_AUTOFREE if af else 0)]
        if cat == "pill":
            return [("pill", self.any_slot(self_slot), r.choice(self.life_slots))] if not (set(self.life_slots) & self.task_slots) else []
        if cat == "sub":
            t = r.choice(self.topics_lit + self.topics_re + (self.topics_sys if r.random() < self.opts.get("p_sys", 0.3) else []))
            fl = self.src_flags()
            if r.random() < 0.2:
                fl |= SRC_DUP
            return [("sub", s, t, fl, sc.ud())]
        if cat == "unsub":
            return [("unsub", s, r.choice(self.topics_lit + self.topics_re + self.topics_sys))]
        if cat == "fd":
            x = r.random()
            if x < 0.3 or not self.ufds:
                if self.next_ufd >= 15:
                    return []
                u = self.next_ufd
                self.next_ufd += 1
                self.ufds.append(u)
                self.fd_owner[u] = real
                fl = self.src_flags()
                if r.random() < 0.25:
                    fl |= SRC_FD_AUTOCLOSE
                if r.random() < 0.15:
                    fl |= SRC_DUP
                return [("fd_open", u, r.choice([0, 1]), 0), ("fd_reg", s, u, fl & ~SRC_LOW & ~SRC_NORM, sc.ud())]
            u = r.choice(self.ufds)
            if x < 0.65:
                return [("fd_write", u)]
            own = self.fd_owner.get(u, real)
            if x < 0.8:
                return [("fd_reg", own, u, self.src_flags() & ~SRC_LOW & ~SRC_NORM, sc.ud())]
            return [("fd_dereg", own if r.random() < 0.8 else s, u)]
        if cat == "tmr":
            x = r.random()
            ns = r.choice([1000000, 2000000, 3000000, 500000, 5000000, 1000001])
            if x < 0.7:
                return [("tmr_reg", s, ns, self.src_flags(), sc.ud(), 0)]
            return [("tmr_dereg", s, ns)]
        if cat == "sgn":
            sig = r.choice([10, 12, 34, 35])
            x = r.random()
            if x < 0.4:
                return [("sgn_reg", s, sig, self.src_flags(allow_autofree=False), sc.ud())]
            if x < 0.8:
                return [("raise", sig)]
            return [("sgn_dereg", s, sig)]
        if cat == "task":
            if not self.task_slots or where != "step":
                return []       # tasks are only started from driver steps, i.e. while the loop runs (known finding: task outlives its source)
            self.tids += 1
            s = r.choice(sorted(self.task_slots))
            return [("task_reg", s, self.tids % 60, self.src_flags(allow_autofree=False), 0, r.choice([0, 100, 1000, 3000]), r.randrange(100))]
        if cat == "thresh":
            if r.random() < 0.7:
                return [("thresh_reg", s, r.choice([1, 2, 5]), r.choice([0, 1000]), 0, sc.ud())]
            return [("thresh_dereg", s, r.choice([1, 2, 5]), r.choice([0, 1000]))]
        if cat == "batch":
            if r.random() < 0.6:
                return [("bsize", s, r.choice([0, 1, 2, 3, 7]))]
            return [("btimeout", s, r.choice([0, 2000000, 5000000]))]
        if cat == "stash":
            if where == "cb" and r.random() < 0.6:
                return [("stash", -1, r.randrange(3))]
            return [("unstash", s, r.choice([1, 2, 3, -1]))]
        if cat == "become":
            if r.random() < 0.6:
                return [("become", s, r.randrange(4))]
            return [("unbecome", s)]
        if cat == "tb":
            return [("tb", s, r.choice([0, 50, 200, 1000]), r.choice([1, 3, 10]))]
        if cat == "ctx":
            c = r.choice(["ctx_len", "ctx_name", "ctx_stats", "ctx_fd", "ctx_userdata", "ctx_register", "ctx_deregister", "ctx_finalize_no", "ctx_tick"])
            if c == "ctx_register":
                return [("ctx_register", 1, 0)]
            if c == "ctx_tick":
                return [("ctx_tick", r.choice([0, 1000000, 3000000]))]
            if c == "ctx_finalize_no" or (c == "ctx_deregister" and self.task_slots):
                return [("ctx_len",)]     # (a context torn down from the loop-stop flush would stop modules with tasks in flight)
            return [(c,)]
        if cat == "retain":
            if where == "cb" and self.nret < 38:
                self.nret += 1
                return [("evt_retain", r.randrange(2))]
            return [("evt_check", -1)]
        if cat == "misc":
            return [(r.choice(["srclen", "mstats", "nameof"]), s)]
        if cat == "errno":
            return [("errno", r.choice([0, 4, 11, 5, 2, 9, 22, r.randrange(1, 134)]))]
        if cat == "sleep":
            return [("sleep", r.choice([100, 500, 1500, 3000]))]
        if cat == "reg":
            return []
        return []


def no_restart(ops, self_slot):
    """(was: avoid the 'restart from own on_stop() during deregistration' defect; repaired, nothing is filtered any more)"""
    return ops


MIXED_W = dict(lifecycle=10, tell=8, publish=8, broadcast=4, pill=2, sub=8, unsub=3, fd=8, tmr=4, sgn=3, task=2,
               batch=2, stash=3, become=3, ctx=2, retain=3, misc=2, errno=2, sleep=2, dereg=1, tb=0, thresh=0)


def gen_mixed(seed, weights=None, nmods=None, nsteps=None, opts=None, mode="loop", last_ops_fn=None):
    """broad random scenario used by C04 and as a base for the other profiles"""
    r = random.Random(seed)
    sc = Sc(mode, "mixed seed=%d" % seed)
    opts = dict(opts or {})
    driven_skeleton(sc)
    nm = nmods if nmods is not None else r.randrange(1, 6)
    names = ["m%d" % i for i in range(1, nm + 1)]
    for i in range(1, nm + 1):
        fl = 0
        x = r.random()
        if x < opts.get("p_modflags", 0.25):
            fl |= r.choice([MOD_NAME_DUP, MOD_NAME_AUTOFREE, MOD_UD_AUTOFREE, MOD_ALLOW_REPLACE, MOD_NAME_DUP | MOD_UD_AUTOFREE])
        hooks = r.choice([7, 7, 7, 6, 4, 2, 0, 5, 3])
        sc.mod(i, names[i - 1], fl, hooks)
    if "task_slots" not in opts:
        opts["task_slots"] = [nm] if (nm >= 2 and r.random() < 0.4) else []
    for t in opts["task_slots"]:
        n_, f_, h_ = sc.mods[t]
        sc.mod(t, n_, f_ & ~MOD_ALLOW_REPLACE, 0)     # no start/eval/stop callbacks: a refusing start would stop it with tasks in flight
    p = Prog(r, sc, weights or MIXED_W, nm, opts)
    # idle phase: register (most) modules, some subscriptions/sources, maybe start
    for i in range(1, nm + 1):
        if r.random() < 0.85:
            sc.main.append(("reg", i))
            if r.random() < 0.5:
                sc.main.append(("start", i))
    for _ in range(r.randrange(0, 8)):
        sc.main += p.op("idle")
    # callback scripts
    for i in range(1, nm + 1):
        name, fl, hooks = sc.mods[i]
        if hooks & 1:
            for n in range(3):
                sc.cb(i, "eval", n, sum((p.op("cb", i) for _ in range(r.randrange(0, 2))), []), ret=1 if r.random() < 0.7 else 0, errno=r.choice([-1, -1, 4, 11, 5]))
            sc.cb(i, "eval", "*", [], ret=1)
        if hooks & 2:
            sc.cb(i, "start", "*", sum((p.op("cb", i) for _ in range(r.randrange(0, 3))), []), ret=1 if r.random() < 0.85 else 0, errno=r.choice([-1, -1, 4, 5]))
        if hooks & 4:
            sc.cb(i, "stop", "*", no_restart(sum((p.op("cb", i) for _ in range(r.randrange(0, 2))), []), i), errno=r.choice([-1, -1, 2]))
        for n in range(r.randrange(0, 6)):
            sc.cb(i, "evt", n, sum((p.op("cb", i) for _ in range(r.randrange(0, 4))), []), errno=r.choice([-1, -1, -1, 0, 4, 11, 5, 2, 9]))
        sc.cb(i, "evt", "*", [], errno=-1)
    ns = nsteps if nsteps is not None else r.randrange(3, 30)
    steps = []
    for k in range(ns):
        ops = []
        for _ in range(r.randrange(0, 4)):
            ops += p.op("step")
        if r.random() < 0.1 and k > 0:
            late = [i for i in range(1, nm + 1)]
            ops.append(("reg", r.choice(late)))      # may be a refused re-registration (slot reuse guard in harness)
        steps.append(ops)
    driven_finish(sc, steps, rng=r, last_ops=(last_ops_fn(p, r) if last_ops_fn else ()))
    finalize_main(sc)
    return sc


HOSTILE_W = dict(MIXED_W, retain=10, dereg=4, lifecycle=14, unsub=8, sub=10, tell=12, publish=12, broadcast=6, pill=4, fd=10)


def hostile_seed_for(k, base):
    """a seed whose template number cycles through 0 (burst), 1 (self-deregistration) and 2 (re-subscription)"""
    want = k % 3
    sd = base
    while random.Random(sd * 31 + 7).randrange(8) != want:
        sd += 1
    return sd


def gen_hostile(seed, mode="loop"):
    """C04 'hostile_lifetime': targeted templates on top of a retain/deregister-heavy random mix"""
    r = random.Random(seed * 31 + 7)
    t = r.randrange(8)
    if t >= 5:
        sc = gen_mixed(seed, weights=HOSTILE_W, opts=dict(p_autofree=0.5, p_src_autofree=0.3, p_oneshot=0.3, task_slots=[]), mode=mode)
        sc.note = "hostile mixed seed=%d" % seed
        return sc
    sc = Sc(mode, "hostile template %d seed=%d" % (t, seed))
    driven_skeleton(sc)
    A, B, C = 1, 2, 3
    for s, n in ((A, "a"), (B, "b"), (C, "c")):
        sc.mod(s, n, r.choice([0, 0, MOD_NAME_DUP, MOD_UD_AUTOFREE]), r.choice([7, 6, 4, 0]))
        for k in ("eval", "start", "stop"):
            sc.cb(s, k, "*", [], ret=1)
        sc.main += [("reg", s), ("start", s)]
    tp = sc.topic("alpha")
    tre = sc.topic("^al.*")
    steps = []

    def send(frm, to, af=None):
        af = r.random() < 0.5 if af is None else af
        return ("tell", frm, to, sc.pay(af), PS_AUTOFREE if af else 0)

    if t == 0:      # burst past the mailbox capacity, recipient running / paused / then stopped or deregistered
        n = r.choice([8190, 8192, 8193, 8300, 9000])
        variant = r.randrange(4)
        pre = []
        if variant in (1, 2):
            pre.append(("pause", B))
        ops = pre + [send(A, B, af=(i % 3 == 0)) for i in range(n)]
        if variant == 2:
            ops.append(("stop", B))
        if variant == 3:
            ops.append(("dereg", B))
        # a broadcast and a publish while one mailbox is full: everybody else has room and must get them
        ops.append(("publish", C, -1, sc.pay(), 0))
        ops.append(("publish", A, -1, sc.pay(True), PS_AUTOFREE))
        steps.append(ops)
        steps += [[] for _ in range(3)]
        if variant == 1:
            steps.append([("resume", B)])
            steps += [[] for _ in range(3)]
    elif t == 1:    # self deregistration / self stop / unsubscribe inside the handler with more mail in flight
        sc.main += [("sub", B, tp, r.choice([0, SRC_DUP, SRC_AUTOFREE]), sc.ud()), ("sub", B, tre, 0, sc.ud())]
        steps.append([send(A, B) for _ in range(r.randrange(2, 8))] + [("publish", A, tp, sc.pay(True), PS_AUTOFREE) for _ in range(3)])
        act = r.choice([("dereg", -1), ("stop", -1), ("unsub", -1, tp), ("pause", -1), ("unsub", -1, tre)])
        sc.cb(B, "evt", r.randrange(0, 2), [("evt_retain", 0), act, ("evt_retain", 1)])
        steps += [[send(A, B)], [], [("start", B)], [send(C, B), ("publish", C, tp, sc.pay(), 0)], []]
    elif t == 2:    # unsubscribe / resubscribe with other flags while a matching message is in flight
        fl = r.choice([0, SRC_DUP, SRC_DUP | SRC_AUTOFREE, SRC_ONESHOT, SRC_ONESHOT | SRC_DUP, SRC_ONESHOT])
        sc.main += [("sub", B, tp, fl, sc.ud())]
        ops = [("publish", A, tp, sc.pay(True), PS_AUTOFREE), ("publish", C, tp, sc.pay(), 0)]
        ops.append(r.choice([("unsub", B, tp), ("sub", B, tp, fl ^ SRC_LOW, sc.ud()), ("sub", B, tp, fl, sc.ud()), ("sub", B, tp, SRC_DUP | SRC_HIGH, sc.ud())]))
        steps.append(ops)
        steps.append([("publish", A, tp, sc.pay(), 0)])
        steps.append([])
        steps.append([("publish", C, tp, sc.pay(), 0), ("publish", A, tp, sc.pay(True), PS_AUTOFREE)])
        sc.cb(B, "evt", 0, [("evt_retain", 0)])
        steps += [[], [], [("unsub", B, tp)], []]
    elif t == 3:    # X stopped / deregistered / paused by Y while X has an event later (or earlier) in the same poll batch
        sc.main += [("fd_open", 1, 0, 0), ("fd_open", 2, 0, 0), ("fd_open", 3, 1, 0)]
        sc.main += [("fd_reg", A, 1, r.choice([0, SRC_ONESHOT]), sc.ud()), ("fd_reg", B, 2, r.choice([0, SRC_FD_AUTOCLOSE, SRC_DUP]), sc.ud()),
                    ("fd_reg", C, 3, 0, sc.ud()), ("tmr_reg", B, 1000000, r.choice([0, SRC_ONESHOT]), sc.ud(), 0)]
        act = r.choice(["stop", "dereg", "pause"])
        for s in (A, B, C):
            others = [x for x in (A, B, C) if x != s]
            sc.cb(s, "evt", 0, [("evt_retain", 0)] + [(act, o) for o in others if r.random() < 0.7])
        steps.append([("fd_write", 1), ("fd_write", 2), ("fd_write", 3), send(C, A), send(C, B), ("sleep", 1500)])
        steps += [[], [("start", A), ("start", B), ("resume", A), ("resume", B)], [("fd_write", 1), ("fd_write", 2)], []]
    else:           # events of every kind retained past their source, module and context
        sc.main += [("fd_open", 1, 1, 0), ("fd_reg", A, 1, r.choice([SRC_ONESHOT, SRC_ONESHOT | SRC_FD_AUTOCLOSE, SRC_DUP | SRC_ONESHOT, 0]), sc.ud()),
                    ("tmr_reg", A, 1000000, r.choice([0, SRC_ONESHOT, SRC_AUTOFREE]), sc.ud(), 0), ("sgn_reg", A, 10, r.choice([0, SRC_ONESHOT]), sc.ud()),
                    ("sub", A, tp, r.choice([0, SRC_ONESHOT, SRC_DUP | SRC_AUTOFREE]), sc.ud())]
        for n in range(6):
            sc.cb(A, "evt", n, [("evt_retain", 0)])
        steps.append([("fd_write", 1), ("raise", 10), ("publish", B, tp, sc.pay(True), PS_AUTOFREE), ("sleep", 2500)])
        steps.append([])
        steps.append([r.choice([("stop", A), ("dereg", A), ("pill", B, A), ("pause", A)])])
        steps += [[], [("evt_check", 0), ("evt_check", 1)], []]
    driven_finish(sc, steps, rng=r)
    finalize_main(sc)
    return sc


def gen_last_ref(seed, mode="loop"):
    """C04: a module deregisters itself from inside its start / stop / evaluation callback while the reference handed to
    m_mod_deregister() is the very last one (the harness dropped its observation reference right after registering)"""
    r = random.Random(seed * 59 + 37)
    sc = Sc(mode, "last reference dropped inside a callback seed=%d" % seed)
    driven_skeleton(sc)
    steps = [[] for _ in range(8)]
    last = []
    for i, kind in enumerate(r.sample(["start", "stop", "eval", "evt", "start", "eval", "flush", "flush", "refuse", "refuse"], r.randrange(2, 5)), start=1):
        sc.mod(i, "lr%d" % i, r.choice([0, MOD_NAME_DUP, MOD_UD_AUTOFREE]), 7)
        for k in ("eval", "start", "stop"):
            sc.cb(i, k, "*", [], ret=1)
        sc.cb(i, "evt", "*", [])
        if kind == "refuse":
            # on_start refuses, the library stops the module, on_stop drops the last reference
            sc.cb(i, "start", 0, [], ret=0)
            sc.cb(i, "stop", 0, [("dereg", -1)])
            sc.cb(i, "eval", "*", [], ret=0)
        else:
            sc.cb(i, "evt" if kind == "flush" else kind, 0, [("dereg", -1)], ret=r.choice([0, 1]))
        sc.main += [("reg", i), ("obs_drop_keep_handle", i)]
        if kind in ("start", "refuse"):
            steps[r.randrange(0, 3)].append(("start", i))
        elif kind == "stop":
            sc.main.append(("start", i))
            steps[r.randrange(0, 3)].append((r.choice(["stop", "dereg"]), i))
        elif kind == "evt":
            sc.main.append(("start", i))
            steps[r.randrange(0, 3)].append(("tell", DRV, i, sc.pay(), 0))
        elif kind == "flush":
            # the handler runs inside the final flush (message sent in the step that quits), optionally with a poison
            # pill queued behind the message
            sc.main.append(("start", i))
            last.append(("tell", DRV, i, sc.pay(), 0))
            if r.random() < 0.7:
                last.append(("pill", DRV, i))
        # eval: the loop's first pass calls it
    driven_finish(sc, steps, rng=r, last_ops=last)
    finalize_main(sc)
    return sc


def gen_ctx_gone(seed, mode="loop"):
    """C04/C07: nobody but the library and the handles given to m_mod_register() references the modules (the harness drops its
    observation references), so the context really goes away with its last module: the last module is deregistered by a
    handler of the final flush (loop-stopped notification / pending mail), by the last step while looping (release when the
    loop returns) or from main after the loop; persistent contexts as a control"""
    r = random.Random(seed * 67 + 43)
    sc = Sc(mode, "context released with its last module seed=%d" % seed)
    persistent = r.random() < 0.2
    driven_skeleton(sc, CTX_PERSIST if persistent else 0)
    sc.main.append(("obs_drop_keep_handle", DRV))
    others = list(range(1, 1 + r.randrange(0, 4)))
    t_stop = sc.topic("LIBMODULE_CTX_STOPPED")
    variant = r.choice(["flush", "flush", "step", "main", "other_in_flush"])
    for i in others:
        sc.mod(i, "g%d" % i, r.choice([0, MOD_NAME_DUP, MOD_UD_AUTOFREE]), r.choice([0, 4, 7]))
        for k in ("eval", "start"):
            sc.cb(i, k, "*", [], ret=1)
        sc.cb(i, "stop", "*", [])
        sc.cb(i, "evt", "*", [("dereg", -1)] if (variant == "other_in_flush" and i == others[-1]) else [])
        sc.main += [("reg", i), ("obs_drop_keep_handle", i), ("start", i)]
        if variant == "other_in_flush" and i == others[-1]:
            sc.main.append(("sub", i, t_stop, 0, sc.ud()))
    if variant in ("flush",) or (variant == "other_in_flush" and not others):
        sc.main.append(("sub", DRV, t_stop, 0, sc.ud()))
    nsteps = r.randrange(1, 4)
    steps = [[] for _ in range(nsteps)]
    for st in steps:
        for _ in range(r.randrange(0, 3)):
            if others:
                st.append(("tell", DRV, r.choice(others), sc.pay(), 0))
    last = []
    gone_in_loop = [i for i in others if not (variant == "other_in_flush" and i == others[-1])]
    r.shuffle(gone_in_loop)
    for i in gone_in_loop:
        last.append(("dereg", i))
    if variant == "step" or (variant == "other_in_flush" and others):
        last.append(("dereg", -1))
    driven_finish(sc, steps, rng=r, teardown=False, last_ops=last)
    if variant == "flush" or (variant == "other_in_flush" and not others):
        # invocations past the last step only happen inside the final flush
        sc.cb(DRV, "evt", "*", [("dereg", -1)])
    sc.main += [("ctx_len",), ("dereg", DRV)] + [("dereg", i) for i in others] + [("ctx_deregister",), ("RELEASE_ALL",)]
    for u in range(0, 2):
        sc.main.append(("fd_close", u))
    sc.main.append(("quiesce",))
    finalize_main(sc, nretained=2)
    return sc


def gen_bind_hostile(seed, mode="loop"):
    """C04: m_mod_bind(): followers bound to a leader are started / paused / resumed / stopped along with it; their callbacks stop,
    pause, deregister or re-bind the leader (which edits the leader's list of followers while the library walks it), deregister
    themselves or bind further modules; chains and diamonds of bindings (acyclic); with and without the harness's observation references"""
    r = random.Random(seed * 73 + 51)
    sc = Sc(mode, "bind hostile seed=%d" % seed)
    driven_skeleton(sc)
    n = r.randrange(2, 6)
    L = 1
    mods = list(range(1, n + 1))
    for i in mods:
        sc.mod(i, "b%d" % i, r.choice([0, 0, MOD_NAME_DUP]), r.choice([7, 6, 6, 4, 2]))
        sc.cb(i, "eval", "*", [], ret=1)
        sc.cb(i, "evt", "*", [])
        sc.main.append(("reg", i))

    def nasty(self_):
        x = r.random()
        o = r.choice(mods)
        if x < 0.2:
            return [("stop", L)]
        if x < 0.3:
            return [("pause", L)]
        if x < 0.4:
            return [("dereg", L)]
        if x < 0.5:
            return [("dereg", -1)]
        if x < 0.68:
            return [("bind", o, L)] if o > L else []
        if x < 0.76:
            return [(r.choice(["start", "stop", "resume", "pause"]), o)]
        if x < 0.82:
            return [("dereg", o)]
        return []
    for i in mods:
        sc.cb(i, "start", "*", nasty(i) if r.random() < 0.6 else [], ret=1 if r.random() < 0.85 else 0)
        sc.cb(i, "stop", "*", nasty(i) if r.random() < 0.6 else [])
    for i in mods[1:]:
        if r.random() < 0.8:
            sc.main.append(("bind", i, L))
    # chains, diamonds; no cycles and no self-binding: a follower (transitively) bound to itself whose on_start refuses is
    # restarted for ever by the program's own semantics
    for _ in range(r.randrange(0, 3)):
        a, b = r.choice(mods), r.choice(mods)
        if a > b:
            sc.main.append(("bind", a, b))
    steps = []
    for k in range(r.randrange(3, 10)):
        ops = []
        for _ in range(r.randrange(1, 3)):
            x = r.random()
            if x < 0.7:
                ops.append((r.choice(["start", "pause", "resume", "stop", "start", "stop"]), L if r.random() < 0.7 else r.choice(mods)))
            elif x < 0.85:
                a, b = r.choice(mods), r.choice(mods)
                if a > b:
                    ops.append(("bind", a, b))
            else:
                ops.append(("tell", DRV, r.choice(mods), sc.pay(), 0))
        steps.append(ops)
    driven_finish(sc, steps, rng=r)
    finalize_main(sc)
    if r.random() < 0.5:
        without_observation_refs(sc)
    return sc


def gen_oneshot_burst(seed, mode="loop"):
    """C03: several messages matching a one-shot subscription are published before the subscriber is served (same step, the
    last step before the quit so that the final flush delivers them, or while the subscriber is paused): it fires once;
    re-arming it from its own handler allows one more"""
    r = random.Random(seed * 79 + 53)
    sc = Sc(mode, "one-shot subscription, burst of matching messages seed=%d" % seed)
    driven_skeleton(sc)
    S, P = 1, 2
    sc.mod(S, "once", 0, 0)
    sc.mod(P, "pub", 0, 0)
    sc.cb(P, "evt", "*", [])
    lit = r.random() < 0.6
    t_sub = sc.topic("alpha" if lit else "^al.*")
    t_pub = sc.topic("alpha")
    t_other = sc.topic("beta")
    ud = sc.ud()
    rearm = r.random() < 0.3
    sc.cb(S, "evt", "*", [])
    if rearm:
        sc.cb(S, "evt", 0, [("sub", -1, t_sub, SRC_ONESHOT, ud)])
    sc.main += [("reg", S), ("reg", P), ("start", S), ("start", P), ("sub", S, t_sub, SRC_ONESHOT | r.choice([0, 0, SRC_DUP]), ud),
                ("sub", S, t_other, 0, sc.ud())]
    burst = [("publish", r.choice([P, DRV]), t_pub, sc.pay(), 0) for _ in range(r.randrange(2, 5))]
    where = r.choice(["step", "step", "last", "paused"])
    steps = [[] for _ in range(r.randrange(1, 4))]
    if where == "step":
        steps[r.randrange(len(steps))] += burst
        steps += [[], []]
        driven_finish(sc, steps, rng=r)
    elif where == "paused":
        steps[0] += [("pause", S)] + burst
        steps += [[("resume", S)], [], []]
        driven_finish(sc, steps, rng=r)
    else:
        driven_finish(sc, steps, rng=r, last_ops=burst)
    finalize_main(sc)
    return sc


def gen_shared_signal(seed, mode="loop"):
    """C03: two modules poll the same signal (the one whose descriptor is read second finds nothing to read) and, in the same
    poll batch, one-shot descriptor sources of a third module are ready: nothing of that batch may be dropped"""
    r = random.Random(seed * 83 + 59)
    sc = Sc(mode, "signal shared by two modules + one-shot sources in one batch seed=%d" % seed)
    driven_skeleton(sc)
    A, B, C = 1, 2, 3
    for i, nm in ((A, "sa"), (B, "sb"), (C, "once")):
        sc.mod(i, nm, 0, 0)
        sc.cb(i, "evt", "*", [])
        sc.main += [("reg", i), ("start", i)]
    sg = r.choice([10, 12])         # SIGUSR1 / SIGUSR2
    sc.main += [("sgn_reg", A, sg, 0, sc.ud()), ("sgn_reg", B, sg, 0, sc.ud())]
    once = {}
    for u in range(1, 1 + r.randrange(1, 4)):
        sc.main += [("fd_open", u, 0, 0), ("fd_reg", C, u, SRC_ONESHOT, sc.ud())]
        once[u] = C
    sc.meta["max_ufd"] = 5
    sc.meta["oneshot_fd"] = once
    steps = [[] for _ in range(r.randrange(1, 3))]
    steps.append([("raise", sg)] + [("fd_write", u) for u in once])
    steps += [[], [], [("sleep", 300)], [], []]
    driven_finish(sc, steps, rng=r)
    finalize_main(sc)
    return sc


def gen_redispatch(seed, mode="loop"):
    """C04: callbacks try to drive the loop themselves - m_ctx_dispatch() / m_ctx_loop() from a handler while a batch of several
    events is being handed out (also right after m_ctx_quit(), also after deregistering the own module), and from handlers run
    by the final flush"""
    r = random.Random(seed * 89 + 61)
    sc = Sc(mode, "re-entrant dispatch seed=%d" % seed)
    driven_skeleton(sc)
    n = r.randrange(1, 4)
    t_stop = sc.topic("LIBMODULE_CTX_STOPPED")
    for i in range(1, n + 1):
        sc.mod(i, "rd%d" % i, 0, r.choice([0, 4]))
        sc.cb(i, "stop", "*", [])       # (a dispatch from a stop callback run by the teardown after the loop would start a new loop)
        sc.main += [("reg", i), ("start", i), ("fd_open", i, 0, 0), ("fd_reg", i, i, 0, sc.ud())]
        if r.random() < 0.5:
            sc.main.append(("sub", i, t_stop, 0, sc.ud()))
        ops = []
        x = r.random()
        if x < 0.35:
            ops = [("ctx_quit", 7), ("ctx_dispatch", 1)]
        elif x < 0.55:
            ops = [("dereg", -1), ("ctx_quit", 7), ("ctx_dispatch", 1)]
        elif x < 0.75:
            ops = [("ctx_dispatch", 1), ("ctx_dispatch", 1)]
        elif x < 0.9:
            ops = [("ctx_quit", 9), ("ctx_loop",)]
        sc.cb(i, "evt", 0, ops)
        sc.cb(i, "evt", "*", [("ctx_dispatch", 1)] if r.random() < 0.5 else [("ctx_loop",)] if r.random() < 0.3 else [])
    sc.meta["max_ufd"] = 5
    steps = [[("fd_write", i) for i in range(1, n + 1)], [], [("fd_write", i) for i in range(1, n + 1)], []]
    driven_finish(sc, steps, rng=r)
    finalize_main(sc)
    if r.random() < 0.5:
        without_observation_refs(sc)
    return sc


def gen_idle_throttled(seed, mode="loop"):
    """C02/C01: a module that is throttled (token bucket) and out of tokens while still IDLE / STOPPED / PAUSED is started by the
    loop's evaluation pass (or later by an explicit call once tokens are back): once it is RUNNING it has a mailbox like any
    other module - messages told to it are delivered, a poison pill stops it"""
    r = random.Random(seed * 97 + 67)
    sc = Sc(mode, "module out of tokens when it gets started seed=%d" % seed)
    driven_skeleton(sc)
    T, S2 = 1, 2
    sc.mod(T, "broke", 0, r.choice([0, 2, 6]))
    sc.mod(S2, "sender", 0, 0)
    for k in ("start", "stop"):
        sc.cb(T, k, "*", [], ret=1)
    sc.cb(T, "evt", "*", [])
    sc.cb(S2, "evt", "*", [])
    burst = r.randrange(1, 4)
    tp = [sc.topic(t) for t in ("alpha", "beta", "gamma", "ab1")]
    sc.main += [("reg", T), ("reg", S2), ("start", S2), ("tb", T, r.choice([1, 2]), burst)]
    for k in range(burst + r.randrange(0, 2)):
        sc.main.append(("sub", T, tp[k % 4], 0, sc.ud()))        # spends the tokens while the module is idle
    steps = [[], [("tell", S2, T, sc.pay(), 0)], [], [("tell", S2, T, sc.pay(), 0), ("publish", S2, tp[0], sc.pay(), 0)], [], []]
    if r.random() < 0.5:
        steps += [[("pill", S2, T)], [], [("tell", S2, T, sc.pay(), 0)], []]
    driven_finish(sc, steps, rng=r)
    finalize_main(sc)
    return sc


def gen_fd_error(seed, mode="loop"):
    """C03: a registered descriptor enters an error condition (the write end of a pipe whose reader goes away: EPOLLERR, reported
    for ever whatever the requested events): the owner is told about it like about any readable descriptor and can deregister
    it; the loop must not spin on it silently"""
    r = random.Random(seed * 101 + 71)
    sc = Sc(mode, "descriptor in error condition seed=%d" % seed)
    driven_skeleton(sc)
    M = 1
    sc.mod(M, "errfd", 0, 0)
    u = 1
    oneshot = r.random() < 0.3
    sc.main += [("reg", M), ("start", M), ("fd_open", u, 3, 0), ("fd_reg", M, u, SRC_ONESHOT if oneshot else 0, sc.ud())]
    sc.cb(M, "evt", "*", [("fd_dereg", -1, u)] if not oneshot else [])
    sc.meta["max_ufd"] = 3
    sc.meta["err_fd"] = {u: M}
    steps = [[] for _ in range(r.randrange(1, 3))] + [[("fd_hup", u)]] + [[], [], [], []]
    driven_finish(sc, steps, rng=r)
    finalize_main(sc)
    return sc


def gen_task_queued_at_quit(seed, mode="loop"):
    """known finding reproducer: more tasks than the task pool has threads are registered in the step that quits the loop; the
    ones still queued when the loop stops are dropped by the pool but their sources stay registered: they never fire, not
    even in a second loop run that lasts long enough"""
    r = random.Random(seed * 103 + 73)
    sc = Sc(mode, "tasks still queued when the loop stops seed=%d" % seed)
    driven_skeleton(sc)
    T = 1
    sc.mod(T, "tasker", 0, 0)
    sc.cb(T, "evt", "*", [])
    sc.main += [("reg", T), ("start", T)]
    n = 20 + r.randrange(0, 6)
    regs = [("task_reg", T, 100 + k, 0, 0, 3000, k % 100) for k in range(n)]
    sc.meta["tasks_must_fire"] = {100 + k: T for k in range(n)}
    run2 = [[("sleep", 3000)] if i % 2 else [] for i in range(12)]
    driven_multi(sc, [[[]], run2], [[], []], rng=r, last_ops=[regs, []])
    finalize_main(sc)
    return sc


def gen_signal_vs_task_thread(seed, mode="loop"):
    """C03: the thread of a task source exists (created by the library) before a module registers a signal source; the signal
    is then sent to the process: it must reach the signal source, not a library thread that does not block it"""
    r = random.Random(seed * 107 + 79)
    sc = Sc(mode, "signal source registered after the library created task threads seed=%d" % seed)
    sc.main.append(("sig_unmask",))
    driven_skeleton(sc)
    T, S = 1, 2
    sc.mod(T, "tasker", 0, 0)
    sc.mod(S, "sig", 0, 0)
    sc.cb(T, "evt", "*", [])
    sc.cb(S, "evt", "*", [])
    sc.main += [("reg", T), ("start", T), ("reg", S), ("start", S)]
    sg = r.choice([10, 12])
    n = r.randrange(1, 4)
    steps = [[("task_reg", T, 10 + k, 0, 0, 20000, k) for k in range(n)], [], [("sgn_reg", S, sg, 0, sc.ud())], [("raise", sg)], [], [], []]
    for _ in range(6):
        steps.append([("sleep", 4000)])
    sc.meta["signals_must_fire"] = {sg: S}
    driven_finish(sc, steps, rng=r)
    finalize_main(sc)
    return sc


def gen_replace_by_own_name(seed, mode="loop"):
    """C15/C04: a replaceable module is referenced by nobody but its context (the program dropped its handle); it is replaced by
    m_mod_register() called with the NAME STRING OF THE OLD MODULE (m_mod_name(old)) and M_MOD_NAME_DUP: the old module - and
    its copy of the name - goes away inside that very call"""
    r = random.Random(seed * 109 + 83)
    sc = Sc(mode, "replacement registered under the replaced module's own name string seed=%d" % seed)
    driven_skeleton(sc)
    A, B, C = 1, 2, 3
    nm = r.choice(["rep", "twin", "x"])
    sc.mod(A, nm, MOD_ALLOW_REPLACE | MOD_NAME_DUP, r.choice([0, 4, 6]))
    sc.mod(B, nm, MOD_NAME_DUP | r.choice([0, MOD_ALLOW_REPLACE]), 0)
    sc.mod(C, nm, MOD_NAME_DUP, 0)
    for m in (A,):
        for k in ("start", "stop"):
            sc.cb(m, k, "*", [], ret=1)
    sc.main += [("reg", A)] + ([("start", A)] if r.random() < 0.6 else []) + [("obs_drop", A)]
    where = r.choice(["main", "step"])
    if where == "main":
        sc.main += [("reg", B, DRV), ("ctx_len",), ("nameof", B)]
        steps = [[], []]
    else:
        steps = [[], [("reg", B, DRV), ("ctx_len",), ("nameof", B)], []]
    if sc.mods[B][1] & MOD_ALLOW_REPLACE:
        steps.append([("obs_drop", B), ("reg", C, DRV), ("nameof", C)])
    driven_finish(sc, steps, rng=r)
    finalize_main(sc)
    return sc


def gen_registry_last_token(seed, mode="loop"):
    """C09: a throttled RUNNING module spends its last token on the registration of a source that the poll layer then
    refuses: the rejected registration leaves no trace (its roll-back is not a user action and needs no token)"""
    r = random.Random(seed * 113 + 89)
    sc = Sc(mode, "rejected registration with the last token seed=%d" % seed)
    driven_skeleton(sc)
    M = 1
    sc.mod(M, "thr", 0, 0)
    sc.cb(M, "evt", "*", [])
    sc.main += [("reg", M), ("start", M), ("fd_open", 1, 2, 0), ("fd_open", 2, 0, 0)]
    sc.meta["unpollable_fds"] = {1}
    sc.meta["max_ufd"] = 4
    burst = r.randrange(1, 4)
    kind = r.choice(["fd", "tmr"])
    bad_reg = ("fd_reg", M, 1, r.choice([0, SRC_DUP]), sc.ud()) if kind == "fd" else ("tmr_reg", M, 77000000000 + r.randrange(3), 0, sc.ud(), 9)
    spend = [("fd_reg", M, 2, 0, sc.ud()), ("sub", M, sc.topic("alpha"), 0, sc.ud()), ("sub", M, sc.topic("beta"), 0, sc.ud())][:burst - 1]
    steps = [[("tb", M, 1, burst)] + spend + [bad_reg, ("srclen", M)], [("tb", M, 0, 0), ("srclen", M)], []]
    driven_finish(sc, steps, rng=r)
    finalize_main(sc)
    return sc


def gen_oneshot_rearm(seed, mode="loop"):
    """C09: a one-shot timer / signal source fires and the handler that receives its event works on the same key: the source is
    already gone from the set then (count without it, deregistration fails), registering the key again succeeds and that new
    source stays (it fires in turn)"""
    r = random.Random(seed * 173 + 149)
    sc = Sc(mode, "one-shot source re-armed from its own handler seed=%d" % seed)
    driven_skeleton(sc)
    M = 1
    sc.mod(M, "rearm", 0, r.choice([0, 4]))
    sc.cb(M, "stop", "*", [])
    ns = r.choice([1000000, 2000000, 1500000])
    sg = r.choice([10, 12])
    kind = r.choice(["tmr", "tmr", "sgn"])
    sc.main += [("reg", M), ("start", M)]
    if kind == "tmr":
        first = ("tmr_reg", M, ns, SRC_ONESHOT, sc.ud(), 0)
        again = lambda: ("tmr_reg", -1, ns, SRC_ONESHOT, sc.ud(), 0)
        gone = ("tmr_dereg", -1, ns, 0)
    else:
        first = ("sgn_reg", M, sg, SRC_ONESHOT, sc.ud())
        again = lambda: ("sgn_reg", -1, sg, SRC_ONESHOT, sc.ud())
        gone = ("sgn_dereg", -1, sg)
    sc.main.append(first)
    rounds = r.randrange(1, 4)
    for n in range(rounds):
        style = r.choice(["rearm", "rearm", "dereg_then_rearm", "count_only"])
        ops = [("srclen", -1), ("srclen", -1, 2 if kind == "tmr" else 3)]
        if style == "dereg_then_rearm":
            ops += [gone, again(), ("srclen", -1)]
        elif style == "rearm":
            ops += [again(), ("srclen", -1)]
            if r.random() < 0.3:
                ops += [again()]        # present now: -EEXIST
        sc.cb(M, "evt", n, ops)
    sc.cb(M, "evt", "*", [("srclen", -1)])
    steps = []
    for n in range(rounds + 1):
        steps.append([("raise", sg)] if kind == "sgn" else [("sleep", 2500)])
        steps += [[], [], [("srclen", M)]]
    driven_finish(sc, steps, rng=r)
    finalize_main(sc)
    return sc


def gen_pill_paused_restart(seed, mode="loop"):
    """C08: a poison pill is accepted, its recipient is paused before the pill is read, the loop stops (a paused module's
    mailbox is discarded there) and runs again, the recipient is resumed and sent more: nothing sent after the pill may reach it"""
    r = random.Random(seed * 127 + 97)
    sc = Sc(mode, "pill, pause, loop restart, resume seed=%d" % seed)
    driven_skeleton(sc)
    R, S2 = 1, 2
    sc.mod(R, "rcpt", 0, r.choice([0, 4]))
    sc.mod(S2, "sender", 0, 0)
    sc.cb(R, "stop", "*", [])
    sc.cb(R, "evt", "*", [])
    sc.cb(S2, "evt", "*", [])
    sc.main += [("reg", R), ("reg", S2), ("start", R), ("start", S2)]
    before = [("tell", S2, R, sc.pay(), 0) for _ in range(r.randrange(0, 3))]
    run1 = [[], before + [("pill", S2, R), ("pause", R)]] + [[] for _ in range(r.randrange(0, 3))]
    run2 = [[("resume", R)], [("tell", S2, R, sc.pay(), 0), ("tell", S2, R, sc.pay(), 0)], [], []]
    driven_multi(sc, [run1, run2], [[], []], rng=r)
    finalize_main(sc)
    return sc


def gen_pill_pause_in_batch(seed, mode="loop"):
    """C08: the recipient of a poison pill is accumulating events; they are handed over right before the pill takes effect, and
    the handler looking at them pauses (or stops and restarts, or just keeps) its own module: the pill still stops a module that
    is RUNNING or PAUSED after that hand-over, and nothing sent after the pill reaches it - a later resume finds it stopped"""
    r = random.Random(seed * 151 + 127)
    sc = Sc(mode, "pill behind accumulated events, handler pauses its module seed=%d" % seed)
    driven_skeleton(sc)
    R, S2 = 1, 2
    sc.mod(R, "rcpt", 0, r.choice([0, 4]))
    sc.mod(S2, "sender", 0, 0)
    sc.cb(R, "stop", "*", [])
    sc.cb(S2, "evt", "*", [])
    sc.main += [("reg", R), ("reg", S2), ("start", R), ("start", S2)]
    how = r.choice(["size", "timeout", "low"])
    tl = sc.topic("alpha")
    if how == "size":
        sc.main.append(("bsize", R, r.choice([4, 8, 64])))
    elif how == "timeout":
        sc.main.append(("btimeout", R, 200000000))
    else:
        sc.main.append(("sub", R, tl, SRC_LOW, sc.ud()))

    def send():
        return ("publish", S2, tl, sc.pay(), 0) if how == "low" else ("tell", S2, R, sc.pay(), 0)
    react = r.choice([[("pause", -1)], [("pause", -1)], [("pause", -1), ("resume", -1)], []])
    sc.cb(R, "evt", 0, react)
    sc.cb(R, "evt", "*", [])
    before = [send() for _ in range(r.randrange(1, 3))]
    after = [send() for _ in range(r.randrange(1, 3))]
    # (the driver's descriptor is always ready and the poll layer serves it fairly: leave the mailbox a few steps to be read)
    steps = [[], before + [("pill", S2, R)] + after] + [[] for _ in range(6)] + [[("resume", R)], [send(), ("tell", S2, R, sc.pay(), 0)]] + [[] for _ in range(5)]
    driven_finish(sc, steps, rng=r)
    finalize_main(sc)
    return sc


def gen_oneshot_resub_at_flush(seed, mode="loop"):
    """C02: a message matched by a one-shot subscription is still in flight when the topic is subscribed again with other
    flags (the persistent subscription replaces the one-shot one) and the loop stops, so the message is handed over by the final
    flush; in the next loop run the topic is published again: the module holds a matching subscription and must get it"""
    r = random.Random(seed * 157 + 131)
    sc = Sc(mode, "one-shot subscription replaced while its message is in flight, loop stop, next run seed=%d" % seed)
    driven_skeleton(sc)
    R, S2, C = 1, 2, 3
    sc.mod(R, "rcpt", 0, 0)
    sc.mod(S2, "sender", 0, 0)
    sc.mod(C, "control", 0, 0)
    for m in (R, S2, C):
        sc.cb(m, "evt", "*", [])
        sc.main += [("reg", m), ("start", m)]
    tl = sc.topic(r.choice(["alpha", "beta"]))
    sc.main += [("sub", R, tl, SRC_ONESHOT | r.choice([0, SRC_DUP]), sc.ud()), ("sub", C, tl, 0, sc.ud())]
    newfl = r.choice([0, SRC_HIGH, SRC_DUP])
    where = r.choice(["quit_step", "quit_step", "step_before"])
    pub = ("publish", S2, tl, sc.pay(), 0)
    resub = ("sub", R, tl, newfl, sc.ud())
    if where == "quit_step":
        run1, last1 = [[], []], [pub, resub]
    else:
        run1, last1 = [[], [pub, resub]], []
    run2 = [[], [("publish", S2, tl, sc.pay(), 0)], [], [], [("publish", S2, tl, sc.pay(), 0)], [], [], []]
    driven_multi(sc, [run1, run2], [[], []], rng=r, last_ops=[last1, []])
    finalize_main(sc)
    return sc


def gen_quit_during_loop_start(seed, mode="loop"):
    """C03: a module still IDLE when the loop starts requests quit from the evaluation / start callback that the loop start runs
    for it (the request is accepted: the context is looping): the run ends at once, returning exactly that code"""
    r = random.Random(seed * 163 + 137)
    sc = Sc(mode, "quit requested from a callback run by the loop start seed=%d" % seed)
    driven_skeleton(sc)
    Q, O = 1, 2
    code = r.randrange(1, 250)
    where = r.choice(["start", "eval", "eval_refuse"])
    sc.mod(Q, "quitter", 0, 3)
    sc.mod(O, "other", 0, r.choice([0, 3]))
    sc.cb(Q, "eval", "*", [("ctx_quit", code)] if where != "start" else [], ret=0 if where == "eval_refuse" else 1)
    sc.cb(Q, "start", "*", [("ctx_quit", code)] if where == "start" else [])
    sc.cb(O, "eval", "*", [])
    sc.cb(O, "start", "*", [])
    sc.cb(Q, "evt", "*", [])
    sc.cb(O, "evt", "*", [])
    sc.main += [("reg", Q), ("reg", O)]
    if r.random() < 0.5:
        sc.main.append(("start", O))
    steps = [[] for _ in range(r.randrange(3, 7))]
    driven_finish(sc, steps, rng=r)
    finalize_main(sc)
    return sc


def gen_loop_start_callbacks(seed, mode="loop"):
    """C15/C20: what the callbacks run by the loop start (evaluation and start of the modules still IDLE) may do: deregister a
    persistent module (refused: the context loops), configure the context tick (its timer descriptor must not leak when the
    loop start arms the tick again), register modules"""
    r = random.Random(seed * 167 + 139)
    sc = Sc(mode, "callbacks of the loop start seed=%d" % seed)
    driven_skeleton(sc)
    P, A, B2 = 1, 2, 3
    sc.mod(P, "keeper", MOD_PERSIST, r.choice([0, 4]))
    sc.mod(A, "late", 0, 3)
    sc.mod(B2, "later", 0, r.choice([0, 3]))
    sc.cb(P, "stop", "*", [])
    for m in (P, A, B2):
        sc.cb(m, "evt", "*", [])
    what = r.choice(["dereg_persist", "dereg_persist", "tick", "tick", "both"])
    ops = []
    if what in ("dereg_persist", "both"):
        ops += [("dereg", P), ("ctx_len",)]
    if what in ("tick", "both"):
        ops += [("ctx_tick", r.choice([1000000, 5000000, 50000000]))]
    where = r.choice(["start", "eval"])
    sc.cb(A, "eval", "*", ops if where == "eval" else [], ret=1)
    sc.cb(A, "start", "*", ops if where == "start" else [])
    sc.cb(B2, "eval", "*", [])
    sc.cb(B2, "start", "*", ops if r.random() < 0.3 else [])
    sc.main += [("reg", P), ("start", P), ("reg", A), ("reg", B2)]
    if r.random() < 0.3:
        sc.main.append(("ctx_tick", 2000000))      # a tick configured before the loop, re-configured by the callback
    steps = [[] for _ in range(r.randrange(2, 5))]
    if r.random() < 0.5:
        steps[-1] = [("ctx_tick", 0)]
    driven_finish(sc, steps, rng=r)
    finalize_main(sc)
    return sc


def gen_restart_while_leaving(seed, mode="loop"):
    """C01: from the stop callback that its own deregistration runs, a module starts itself again - alone, or after the name
    it just gave up has been registered again by another module: ZOMBIE is final, the call is refused and changes nothing"""
    r = random.Random(seed * 131 + 101)
    sc = Sc(mode, "restart attempted while being deregistered seed=%d" % seed)
    driven_skeleton(sc)
    nm = r.choice(["phoenix", "px", "ash"])
    A, B = 1, 2
    sc.mod(A, nm, r.choice([0, MOD_NAME_DUP]), r.choice([4, 6, 7]))
    sc.mod(B, nm, r.choice([0, MOD_NAME_DUP]), r.choice([0, 2]))
    for k in ("eval", "start"):
        sc.cb(A, k, "*", [], ret=1)
        sc.cb(B, k, "*", [], ret=1)
    retake = r.random() < 0.7
    sc.cb(A, "stop", "*", ([("reg", B)] if retake else []) + [("start", -1), ("resume", -1)])
    sc.cb(A, "evt", "*", [])
    sc.cb(B, "evt", "*", [])
    sc.main += [("reg", A), ("start", A)]
    where = r.choice(["step", "main", "pill"])
    if where == "main":
        sc.main.append(("dereg", A))
        steps = [[], []]
    elif where == "pill":
        steps = [[("pill", DRV, A)], [], [("dereg", A)], []]
    else:
        steps = [[], [("dereg", A)], [], []]
    driven_finish(sc, steps, rng=r)
    finalize_main(sc)
    return sc


def gen_teardown_restart(seed, mode="loop"):
    """C07: the context is torn down as a whole (m_ctx_deregister after the loop) while 2-5 modules are RUNNING or PAUSED; the
    stop callbacks that the teardown runs try to start / resume their own module again: every module ends up ZOMBIE, stopped
    exactly once, the restart is refused, no library descriptor is left behind"""
    r = random.Random(seed * 251 + 227)
    sc = Sc(mode, "teardown whose stop callbacks restart their module seed=%d" % seed)
    driven_skeleton(sc)
    n = r.randrange(2, 6)
    for i in range(1, n + 1):
        sc.mod(i, "td%d" % (r.randrange(1000) * 8 + i), r.choice([0, MOD_NAME_DUP]), r.choice([4, 6, 7]))
        for k in ("eval", "start"):
            sc.cb(i, k, "*", [], ret=1)
        x = r.random()
        sc.cb(i, "stop", "*", [("start", -1)] if x < 0.4 else [("start", -1), ("resume", -1)] if x < 0.6 else [("resume", -1)] if x < 0.7 else [])
        sc.cb(i, "evt", "*", [])
        sc.main += [("reg", i), ("start", i)]
        if r.random() < 0.25:
            sc.main.append(("pause", i))
    steps = [[], []]
    driven_finish(sc, steps, rng=r, teardown=False)
    sc.main.append(("ctx_deregister",))
    sc.main.append(("RELEASE_ALL",))
    order = list(range(0, n + 1))
    r.shuffle(order)
    for s_ in order:
        sc.main.append(("obs_drop", s_))
    for u in range(0, sc.meta.get("max_ufd", 16)):
        sc.main.append(("fd_close", u))
    sc.main.append(("quiesce",))
    finalize_main(sc)
    return sc


def gen_start_refused_by_source(seed, mode="loop"):
    """C01: m_mod_start() of an IDLE / STOPPED module fails because one of its sources cannot be polled (a regular file registered
    while the module was not running): the refused start changes nothing - the module keeps its state, resume is still refused,
    and once the source is gone a start succeeds and runs the start callback"""
    r = random.Random(seed * 257 + 229)
    sc = Sc(mode, "start refused by an unpollable source seed=%d" % seed)
    driven_skeleton(sc)
    T, O = 1, 2
    sc.mod(T, "ref%d" % r.randrange(100), 0, r.choice([5, 7, 7]))       # (always with an evaluation callback, which says no: the loop itself never tries to start it)
    sc.mod(O, "other", 0, 0)
    sc.cb(T, "eval", "*", [], ret=0)
    sc.cb(T, "start", "*", [], ret=1)
    sc.cb(T, "stop", "*", [])
    sc.cb(T, "evt", "*", [])
    sc.cb(O, "evt", "*", [])
    sc.main += [("reg", T), ("reg", O), ("start", O), ("fd_open", 1, 2, 0), ("fd_open", 2, 0, 0)]
    sc.meta["unpollable_fds"] = {1}
    sc.meta["max_ufd"] = 4
    from_stopped = r.random() < 0.5
    if from_stopped:
        sc.main += [("start", T), ("stop", T)]
    pre = [("fd_reg", T, 2, 0, sc.ud())] if r.random() < 0.5 else []
    bad = [("fd_reg", T, 1, r.choice([0, SRC_DUP]), sc.ud())]
    probe = [("start", T), ("resume", T), ("pause", T), ("start", T)]
    fix = [("fd_dereg", T, 1), ("start", T), ("tell", O, T, sc.pay(), 0)]
    if r.random() < 0.5:
        sc.main += pre + bad + probe
        steps = [[], [("start", T)], [], fix, [], []]
    else:
        steps = [[], pre + bad + probe, [], [("resume", T), ("start", T)], fix, [], []]
    driven_finish(sc, steps, rng=r)
    finalize_main(sc)
    return sc


def gen_paused_with_batch_at_quit(seed, mode="loop"):
    """C01: events are being accumulated for a module (batch size not reached, or low-priority only) when it is paused, and the
    loop quits while it is still PAUSED: no handler runs for a module that is not RUNNING - not in the final flush either"""
    r = random.Random(seed * 137 + 103)
    sc = Sc(mode, "paused with accumulated events when the loop stops seed=%d" % seed)
    driven_skeleton(sc)
    T, S2 = 1, 2
    sc.mod(T, "acc", 0, r.choice([0, 4]))
    sc.mod(S2, "sender", 0, 0)
    sc.cb(T, "stop", "*", [])
    sc.cb(T, "evt", "*", [])
    sc.cb(S2, "evt", "*", [])
    tl = sc.topic("alpha")
    sc.main += [("reg", T), ("reg", S2), ("start", T), ("start", S2), ("sub", T, tl, SRC_LOW, sc.ud())]
    how = r.choice(["size", "low", "timeout"])
    if how == "size":
        sc.main.append(("bsize", T, r.choice([3, 5, 64])))
        burst = [("tell", S2, T, sc.pay(), 0) for _ in range(r.randrange(1, 3))]
    elif how == "timeout":
        sc.main.append(("btimeout", T, 50000000))
        burst = [("tell", S2, T, sc.pay(), 0) for _ in range(r.randrange(1, 3))]
    else:
        burst = [("publish", S2, tl, sc.pay(), 0) for _ in range(r.randrange(1, 3))]
    steps = [[], burst, [], [("pause", T)], []]
    driven_finish(sc, steps, rng=r)
    finalize_main(sc)
    return sc


def gen_batch_then_mail_at_quit(seed, mode="loop"):
    """C08/C13: events are being accumulated for a RUNNING module (batch size not reached, timeout not expired, or low-priority
    only) and later messages are still unread in its mailbox when the loop stops: the final flush hands over both, the
    accumulated ones first (arrival order = send order)"""
    r = random.Random(seed * 149 + 113)
    sc = Sc(mode, "accumulated events + unread mail when the loop stops seed=%d" % seed)
    driven_skeleton(sc)
    T, S2 = 1, 2
    sc.mod(T, "acc", 0, r.choice([0, 4]))
    sc.mod(S2, "sender", 0, 0)
    sc.cb(T, "stop", "*", [])
    sc.cb(T, "evt", "*", [])
    sc.cb(S2, "evt", "*", [])
    tl = sc.topic("alpha")
    sc.main += [("reg", T), ("reg", S2), ("start", T), ("start", S2)]
    how = r.choice(["size", "low", "timeout", "low+size"])
    if how in ("low", "low+size"):
        sc.main.append(("sub", T, tl, SRC_LOW, sc.ud()))
    if how in ("size", "low+size"):
        sc.main.append(("bsize", T, r.choice([6, 9, 64])))
    if how == "timeout":
        sc.main.append(("btimeout", T, 80000000))

    def send():
        if how in ("low", "low+size"):
            return ("publish", S2, tl, sc.pay(), 0)
        return ("tell", S2, T, sc.pay(), 0)
    burst = [send() for _ in range(r.randrange(1, 3))]
    late = [send() for _ in range(r.randrange(1, 3))]
    steps = [[], burst, []]
    driven_finish(sc, steps, rng=r, last_ops=late)
    sc.meta["batch_target"] = T
    if how == "timeout":
        sc.meta["batch_timeout_used"] = True
    finalize_main(sc)
    return sc


def gen_paused_subscriber(seed, mode="dispatch"):
    """C19: the subscriber is PAUSED when the occurrence happens and resumed before the loop run ends (paused modules are sent
    system notifications like running ones): (a) a loop start with the subscriber paused since before it; (b) a context without
    any always-running module: the subscriber paused, then the last running module stops - for a moment nothing runs"""
    r = random.Random(seed * 139 + 107)
    variant = r.choice(["loop_start", "nothing_running"])
    sc = Sc("dispatch", "paused subscriber (%s) seed=%d" % (variant, seed))
    W, D = 1, 2
    sc.mod(W, "watch", 0, 0)
    sc.mod(D, "doer", r.choice([0, 0, MOD_DENY_PUB, MOD_DENY_PUB | MOD_DENY_CTX]), r.choice([0, 4]))
    sc.cb(W, "evt", "*", [])
    sc.cb(D, "evt", "*", [])
    sc.cb(D, "stop", "*", [])
    tps = [sc.topic(t) for t in ("LIBMODULE_CTX_STARTED", "LIBMODULE_CTX_STOPPED", "LIBMODULE_MOD_STARTED", "LIBMODULE_MOD_STOPPED")]
    sc.main += [("ctx_register", 0, CTX_PERSIST), ("reg", W), ("reg", D)]
    for t in tps:
        sc.main.append(("sub", W, t, 0, sc.ud()))
    sc.main += [("start", W), ("start", D)]
    if variant == "loop_start":
        sc.main += [("pause", W), ("ctx_dispatch", 1), ("ctx_dispatch", 1), ("resume", W)]
        sc.main += [("ctx_dispatch", 1)] * 3
    else:
        sc.main += [("ctx_dispatch", 1), ("ctx_dispatch", 1), ("pause", W), (r.choice(["stop", "pause", "dereg"]), D), ("resume", W)]
        sc.main += [("ctx_dispatch", 1)] * 3
    # (one dispatch: it sees the quit request and ends the run; a further one would start a new run)
    sc.main += [("ctx_quit", r.randrange(1, 100)), ("ctx_dispatch", 1)]
    sc.main += [("dereg", W), ("dereg", D), ("ctx_deregister",), ("obs_drop", W), ("obs_drop", D), ("quiesce",)]
    sc.meta["style"] = "main_nokick"
    finalize_main(sc)
    return sc


def gen_flush_many_changes(seed, mode="loop"):
    """C19: 4-9 subscribers of the loop-stopped notification; the handlers of several of them - run by the final flush of the loop
    - each register or deregister a module other than their own (every such call changes the context's module table while
    the flush walks it): still every subscribed running module gets the notification exactly once"""
    r = random.Random(seed * 239 + 211)
    sc = Sc(mode, "module table changed by several handlers of the final flush seed=%d" % seed)
    driven_skeleton(sc)
    n = r.randrange(4, 10)
    t_stop = sc.topic("LIBMODULE_CTX_STOPPED")
    t_start = sc.topic("LIBMODULE_CTX_STARTED")
    for i in range(1, n + 1):
        sc.mod(i, "%s%d" % (r.choice(["sub", "w", "obs_"]), r.randrange(1000) * 32 + i), 0, 0)
        sc.mod(n + i, "helper%d" % (r.randrange(1000) * 32 + i), 0, 0)
        sc.cb(n + i, "evt", "*", [])
        sc.main += [("reg", i), ("start", i), ("sub", i, t_stop, r.choice([0, 0, SRC_HIGH, SRC_LOW]), sc.ud())]
        pre_started = r.random() < 0.3
        if pre_started:
            sc.main.append(("sub", i, t_start, 0, sc.ud()))
        x = r.random()
        if x < 0.45:
            sc.main.append(("reg", n + i))
            if r.random() < 0.3:
                sc.main.append(("start", n + i))
            ops = [("dereg", n + i)]
        elif x < 0.75:
            ops = [("reg", n + i)]
        elif x < 0.85:
            ops = [("dereg", -1)]
        else:
            ops = []
        sc.cb(i, "evt", 1 if pre_started else 0, ops)
        if pre_started:
            sc.cb(i, "evt", 0, [])
        sc.cb(i, "evt", "*", [])
    steps = [[], [], []]
    driven_finish(sc, steps, rng=r)
    finalize_main(sc)
    return sc


def gen_tick_in_flush(seed, mode="loop"):
    """C20: m_ctx_set_tick() called by a handler that the final flush of a loop run invokes (loop-stopped notification) while a
    tick is active"""
    r = random.Random(seed * 61 + 41)
    sc = Sc(mode, "tick reconfigured inside the final flush seed=%d" % seed)
    driven_skeleton(sc)
    sc.mod(1, "ticker", 0, 0)
    t_stop = sc.topic("LIBMODULE_CTX_STOPPED")
    sc.main += [("reg", 1), ("start", 1), ("sub", 1, t_stop, 0, sc.ud()), ("ctx_tick", r.choice([1000000, 2000000]))]
    sc.cb(1, "evt", "*", [("ctx_tick", r.choice([0, 3000000, 1000000]))])
    steps = [[] for _ in range(r.randrange(2, 6))]
    if r.random() < 0.5:
        # ... and the context loops again afterwards: whatever the first run left in the poll set is still there
        driven_multi(sc, [steps, [[("sleep", 1500)], [], [("sleep", 1500)], []]], [[], []], rng=r)
    else:
        driven_finish(sc, steps, rng=r)
    finalize_main(sc)
    return sc


def gen_task_hostile(seed, mode="loop"):
    """known finding reproducer: a task still running when its module is stopped / paused / deregistered"""
    r = random.Random(seed)
    sc = Sc(mode, "task outlives its source seed=%d" % seed)
    driven_skeleton(sc)
    sc.mod(1, "tasker", 0, 0)
    sc.main += [("reg", 1), ("start", 1)]
    steps = [[("task_reg", 1, 1, 0, 0, 3000, 7), r.choice([("stop", 1), ("dereg", 1), ("pause", 1)])], [("sleep", 5000)], []]
    driven_finish(sc, steps, rng=r)
    finalize_main(sc)
    return sc


def gen_restart_in_stop(seed, mode="loop"):
    """known finding reproducer: on_stop() restarts its own module while the module is being deregistered"""
    r = random.Random(seed)
    sc = Sc(mode, "restart from own on_stop during deregistration seed=%d" % seed)
    driven_skeleton(sc)
    sc.mod(1, "phoenix", 0, 4)
    sc.cb(1, "stop", "*", [("start", -1)])
    sc.main += [("reg", 1), ("start", 1), ("tmr_reg", 1, 1000000, 0, 5, 0)]
    steps = [[], [("dereg", 1)], [], []]
    driven_finish(sc, steps, rng=r)
    finalize_main(sc)
    return sc


def main_dispatch_finish(sc, steps, rng=None, quit_code=None, teardown=True, kick=True):
    """dispatch-only style: steps run from the main script *between* m_ctx_dispatch() calls (context looping, no
    callback on the stack); the driver's kicker makes every dispatch return >= 1, i.e. end with an evaluation pass"""
    code = quit_code if quit_code is not None else (rng.randrange(0, 200) if rng else 0)
    sc.cb(DRV, "evt", "*", [])
    if not kick:
        # no always-ready descriptor: a poll batch then holds only what the scenario itself produced (eg. nothing but a poison pill)
        sc.main = [op for op in sc.main if not (op[0] == "fd_write" and op[1] == KICK)]
        sc.meta["style"] = "main_nokick"
    sc.main.append(("ctx_dispatch", 1))
    for ops in steps:
        sc.main += ops
        sc.main.append(("ctx_dispatch", 1))
        if not kick:
            sc.main.append(("ctx_dispatch", 1))
    sc.main += [("ctx_quit", code), ("ctx_dispatch_until", 50, 0)]
    sc.meta["quit_code"] = code
    sc.meta.setdefault("style", "main")
    if teardown:
        order = sorted(sc.mods)
        if rng:
            rng.shuffle(order)
        for s in order:
            sc.main.append(("dereg", s))
        sc.main.append(("ctx_deregister",))
        sc.main.append(("RELEASE_ALL",))
        order2 = sorted(sc.mods)
        if rng:
            rng.shuffle(order2)
        for s in order2:
            sc.main.append(("obs_drop", s))
        for u in range(0, 16):
            sc.main.append(("fd_close", u))
        sc.main.append(("quiesce",))


LIFE_W = dict(lifecycle=30, dereg=5, tell=4, publish=3, broadcast=2, pill=4, sub=4, unsub=1, fd=3, tmr=2, misc=2, errno=1, ctx=1,
              batch=0, stash=0, become=0, retain=0, sleep=1, sgn=0, task=0, tb=0, thresh=0)


def gen_lifecycle(seed, style=None):
    """C01: many modules, every (state, call) pair from outside and from inside every callback kind, all combinations of
    eval/start results, late registrations; names chosen at random so that table order varies"""
    r = random.Random(seed * 7 + 3)
    style = style or r.choice(["handler", "main", "main", "main_nokick"])
    sc = Sc("dispatch" if style != "handler" else r.choice(["loop", "dispatch"]), "lifecycle seed=%d style=%s" % (seed, style))
    driven_skeleton(sc)
    nm = r.randrange(2, 7)
    alphabet = "abcdefghijklmnopqrstuvwxyz"
    for i in range(1, nm + 1):
        name = "".join(r.choice(alphabet) for _ in range(r.randrange(2, 7))) + str(i)
        hooks = r.choice([7, 7, 7, 6, 4, 5, 3, 1, 0, 2])
        fl = r.choice([0, 0, 0, MOD_NAME_DUP, MOD_PERSIST]) if r.random() < 0.3 else 0
        sc.mod(i, name, fl, hooks)
    p = Prog(r, sc, LIFE_W, nm, dict(p_autofree=0.2, task_slots=[]))
    late = []
    for i in range(1, nm + 1):
        if r.random() < 0.75:
            sc.main.append(("reg", i))
            x = r.random()
            if x < 0.25:
                sc.main.append(("start", i))
            elif x < 0.32:
                sc.main += [("start", i), ("pause", i)]
            elif x < 0.38:
                sc.main += [("start", i), ("stop", i)]
        else:
            late.append(i)
    for _ in range(r.randrange(0, 5)):
        sc.main += p.op("idle")
    for i in range(1, nm + 1):
        hooks = sc.mods[i][2]
        if hooks & 1:
            pf = r.choice([0.0, 0.3, 0.6, 1.0])        # probability that an evaluation says "no"
            late_yes = r.randrange(2, 7) if (style == "main_nokick" and r.random() < 0.6) else None
            for n in range(8):
                ret_ = 0 if r.random() < pf else 1
                if late_yes is not None:
                    ret_ = 0 if n < late_yes else 1        # says no for a while, then yes: needs a later pass to be started
                sc.cb(i, "eval", n, sum((p.op("cb", i) for _ in range(r.choice([0, 0, 0, 1]))), []), ret=ret_)
            sc.cb(i, "eval", "*", [], ret=1 if r.random() < 0.8 else 0)
        if hooks & 2:
            for n in range(4):
                sc.cb(i, "start", n, sum((p.op("cb", i) for _ in range(r.choice([0, 0, 1, 2]))), []), ret=0 if r.random() < 0.2 else 1)
            sc.cb(i, "start", "*", [], ret=1)
        if hooks & 4:
            for n in range(4):
                sc.cb(i, "stop", n, no_restart(sum((p.op("cb", i) for _ in range(r.choice([0, 0, 1, 2]))), []), i))
            sc.cb(i, "stop", "*", [])
        for n in range(r.randrange(0, 5)):
            sc.cb(i, "evt", n, sum((p.op("cb", i) for _ in range(r.randrange(0, 3))), []))
        sc.cb(i, "evt", "*", [])
    steps = []
    for k in range(r.randrange(4, 25)):
        ops = []
        for _ in range(r.randrange(0, 4)):
            ops += p.op("step" if style == "handler" else "idle")
        if late and r.random() < 0.3:
            ops.append(("reg", late.pop()))
        steps.append(ops)
    if style == "main":
        main_dispatch_finish(sc, steps, rng=r)
    elif style == "main_nokick":
        # make pill-only batches likely: every few steps a lone poison pill for a module that may be running
        for k in range(len(steps)):
            if r.random() < 0.5:
                steps[k] = [("pill", r.randrange(1, nm + 1), r.randrange(1, nm + 1))] if r.random() < 0.7 else steps[k][:1]
        main_dispatch_finish(sc, steps, rng=r, kick=False)
    else:
        driven_finish(sc, steps, rng=r)
    finalize_main(sc)
    return sc


MSG_W = dict(lifecycle=8, tell=22, publish=22, broadcast=8, pill=3, sub=14, unsub=4, fd=2, tmr=0, sgn=0, task=0, batch=1, stash=0,
             become=0, ctx=1, retain=2, misc=2, errno=1, sleep=1, dereg=1, tb=0, thresh=0)


def gen_messaging(seed, mode="loop"):
    """C02/C08: many-to-many traffic with literal and regular-expression subscriptions, interleaved with state changes;
    the last step sends and quits at once, so that messages are still pending when the loop stops (final flush)"""
    def last_ops(p, r):
        ops = []
        for _ in range(r.randrange(0, 5)):
            p.w = dict(tell=3, publish=3, broadcast=1)
            ops += p.op("step")
        return ops
    r = random.Random(seed)
    sc = gen_mixed(seed, weights=MSG_W, nmods=r.randrange(2, 7), opts=dict(p_autofree=0.35, p_sys=0.1, task_slots=[], p_modflags=0.15, p_oneshot=0.08),
                   mode=mode, last_ops_fn=last_ops)
    sc.note = "messaging seed=%d" % seed
    return sc


def driven_multi(sc, runs, between=None, rng=None, last_ops=None):
    """several loop runs in one scenario: run i executes runs[i] as driver steps and quits; between[i] ops run from the
    main script while the context is idle; the driver's invocation counter simply goes on across runs"""
    k = 0
    codes = []
    for i, steps in enumerate(runs):
        code = rng.randrange(0, 200) if rng else i
        codes.append(code)
        for ops in steps:
            sc.cb(DRV, "evt", k, ops)
            k += 1
        sc.cb(DRV, "evt", k, list(last_ops[i] if last_ops else ()) + [("ctx_quit", code)])
        k += 1
        sc.main.append(("LOOP",))
        if between and i < len(between):
            sc.main += between[i]
    sc.cb(DRV, "evt", "*", [("ctx_quit", 0)])
    sc.meta["quit_codes"] = codes
    slots = sorted(sc.mods)
    order = list(slots)
    if rng:
        rng.shuffle(order)
    for s_ in order:
        sc.main.append(("dereg", s_))
    sc.main.append(("ctx_deregister",))
    sc.main.append(("RELEASE_ALL",))
    if rng:
        rng.shuffle(order)
    for s_ in order:
        sc.main.append(("obs_drop", s_))
    for u in range(0, 16):
        sc.main.append(("fd_close", u))
    sc.main.append(("quiesce",))


ORDER_W = dict(lifecycle=5, tell=26, publish=20, broadcast=8, pill=6, sub=10, unsub=2, fd=0, tmr=0, sgn=0, task=0, batch=6, stash=0,
               become=0, ctx=0, retain=0, misc=1, errno=0, sleep=1, dereg=0, tb=0, thresh=0)


def gen_ordering(seed, mode="loop"):
    """C08: several senders, one or two busy recipients, batching, pause/resume of the recipient, pills with traffic before
    and after, sends followed at once by quit, two loop runs (events left over in a batch when the first run stops)"""
    r = random.Random(seed * 13 + 1)
    sc = Sc(mode, "ordering seed=%d" % seed)
    driven_skeleton(sc)
    nm = r.randrange(2, 6)
    for i in range(1, nm + 1):
        sc.mod(i, "o%d" % i, 0, r.choice([0, 4, 6, 7]))
        for k in ("eval", "start", "stop"):
            sc.cb(i, k, "*", [], ret=1)
        sc.main += [("reg", i), ("start", i)]
    p = Prog(r, sc, ORDER_W, nm, dict(p_autofree=0.2, p_sys=0.3, task_slots=[], p_oneshot=0.0))
    for _ in range(r.randrange(2, 7)):
        p.w = dict(sub=1)
        sc.main += p.op("idle")
    p.w = dict(ORDER_W)
    for i in range(1, nm + 1):
        for n in range(r.randrange(0, 5)):
            sc.cb(i, "evt", n, sum((p.op("cb", i) for _ in range(r.randrange(0, 3))), []))
        sc.cb(i, "evt", "*", [])
    runs, between, lasts = [], [], []
    for run in range(r.choice([1, 1, 2, 2, 3])):
        steps = []
        for k in range(r.randrange(3, 14)):
            ops = []
            for _ in range(r.randrange(0, 5)):
                ops += p.op("step")
            steps.append(ops)
        runs.append(steps)
        p.w = dict(tell=3, publish=3, broadcast=1, pill=1)
        lasts.append(sum((p.op("step") for _ in range(r.randrange(0, 5))), []))
        p.w = dict(ORDER_W)
        between.append(sum((p.op("idle") for _ in range(r.randrange(0, 4))), []))
    driven_multi(sc, runs, between, rng=r, last_ops=lasts)
    finalize_main(sc)
    return sc


SYSN_W = dict(lifecycle=28, tell=4, publish=3, broadcast=2, pill=3, sub=14, unsub=3, fd=0, tmr=0, sgn=0, task=0, batch=0, stash=0,
              become=0, ctx=3, retain=0, misc=1, errno=0, sleep=2, dereg=3, tb=0, thresh=0)


def gen_sysnotif(seed, mode="loop"):
    """C19: subscribers to the system topics (literal and catch-all regex), transitions of the other modules, loop restarts, ticks"""
    r = random.Random(seed * 17 + 5)
    sc = Sc(mode, "sysnotif seed=%d" % seed)
    driven_skeleton(sc)
    nm = r.randrange(2, 6)
    for i in range(1, nm + 1):
        # (a module that may not publish still has its transitions announced: the library is the one telling)
        sc.mod(i, "s%d" % i, MOD_DENY_PUB if r.random() < 0.25 else 0, r.choice([0, 4, 6, 7, 2]))
        sc.cb(i, "eval", "*", [], ret=1)
        # transitions nested in the lifecycle callbacks themselves: a start callback that pauses / stops its module or
        # refuses the start, a stop callback that starts the module again
        sc.cb(i, "start", "*", [(r.choice(["pause", "stop"]), -1)] if r.random() < 0.12 else [], ret=1 if r.random() < 0.85 else 0)
        sc.cb(i, "stop", "*", [("start", -1)] if r.random() < 0.08 else [])
        sc.main.append(("reg", i))
        if r.random() < 0.7:
            sc.main.append(("start", i))
    p = Prog(r, sc, SYSN_W, nm, dict(p_autofree=0.2, p_sys=1.0, task_slots=[], p_oneshot=0.05))
    systs = p.topics_sys
    for i in range(1, nm + 1):
        for t in systs:
            if r.random() < 0.45:
                sc.main.append(("sub", i, t, r.choice([0, 0, 0, SRC_HIGH, SRC_NORM, SRC_LOW]), sc.ud()))
        if r.random() < 0.15:
            sc.main.append(("sub", i, sc.topic(".*"), 0, sc.ud()))
    if r.random() < 0.3:
        sc.main.append(("ctx_tick", r.choice([1000000, 2000000, 500000])))
    for i in range(1, nm + 1):
        for n in range(r.randrange(0, 3)):
            sc.cb(i, "evt", n, sum((p.op("cb", i) for _ in range(r.randrange(0, 2))), []))
        sc.cb(i, "evt", "*", [])
    runs, between = [], []
    for run in range(r.choice([1, 2, 2, 3])):
        steps = []
        for k in range(r.randrange(3, 12)):
            ops = []
            for _ in range(r.randrange(0, 3)):
                ops += p.op("step")
            if r.random() < 0.05:
                ops.append(("ctx_tick", r.choice([0, 1000000, 3000000])))
            steps.append(ops)
        runs.append(steps)
        between.append(sum((p.op("idle") for _ in range(r.randrange(0, 3))), []))
    driven_multi(sc, runs, between, rng=r)
    finalize_main(sc)
    return sc


def gen_tick_rearm(seed, mode="loop"):
    """C19: the context tick is re-configured while the loop runs (short -> long period, off and on again) and the run then lasts
    several short periods of real time: the notifications must follow the period configured last"""
    r = random.Random(seed * 71 + 47)
    sc = Sc(mode, "tick re-armed while looping seed=%d" % seed)
    driven_skeleton(sc)
    sc.mod(1, "watch", 0, 0)
    sc.cb(1, "evt", "*", [])
    t_tick = sc.topic("LIBMODULE_CTX_TICK")
    sc.main += [("reg", 1), ("start", 1), ("sub", 1, t_tick, 0, sc.ud())]
    short = r.choice([1000000, 2000000])
    long_ = r.choice([40000000, 60000000, 100000000])
    where = r.choice(["before_loop", "in_loop"])
    steps = []
    if where == "before_loop":
        sc.main.append(("ctx_tick", short))
    else:
        steps.append([("ctx_tick", short)])
    for _ in range(r.randrange(2, 5)):
        steps.append([("sleep", 1500)])
    if r.random() < 0.3:
        steps.append([("ctx_tick", 0)])
        steps.append([("sleep", 1500)])
    if r.random() < 0.4:
        # the subscriber is paused for several (short) periods and resumed: no burst of stale ticks
        steps.append([("pause", 1)])
        for _ in range(r.randrange(8, 14)):
            steps.append([("sleep", 2000)])
        steps.append([("resume", 1)])
        steps.append([])
        steps.append([])
    steps.append([("ctx_tick", long_)])
    for _ in range(r.randrange(10, 16)):
        steps.append([("sleep", 2000)])
    driven_finish(sc, steps, rng=r)
    finalize_main(sc)
    return sc


def gen_sources(seed, mode="loop"):
    """C03/C20: descriptor, timer, signal and task sources; 1..100 descriptors ready in one poll batch; errno poisoned by
    every callback; runs normally end with enough empty steps for everything produced to be consumed (conservation)"""
    r = random.Random(seed * 23 + 11)
    sc = Sc(mode, "sources seed=%d" % seed)
    driven_skeleton(sc)
    shape = r.choice(["few", "few", "few", "wide", "quit_early"])
    nm = r.randrange(1, 5)
    tasker = nm + 1 if r.random() < 0.4 else None
    for i in range(1, nm + 1):
        sc.mod(i, "e%d" % i, r.choice([0, 0, MOD_UD_AUTOFREE]), r.choice([0, 4, 6, 7]))
        sc.cb(i, "eval", "*", [], ret=1)
        sc.cb(i, "start", "*", [], ret=1, errno=r.choice([-1, 4, 5]))
        sc.cb(i, "stop", "*", [], errno=r.choice([-1, 2]))
        sc.main += [("reg", i), ("start", i)]
    if tasker:
        sc.mod(tasker, "tasker", 0, 0)
        sc.main += [("reg", tasker), ("start", tasker)]
    conserve = {}
    pend = {}
    u = 1
    other = []          # (ufd, owner) not under conservation (one-shot / auto-close / dup / registered late)
    nfd = r.randrange(70, 101) if shape == "wide" else r.randrange(1, 7)
    for _ in range(nfd):
        owner = r.randrange(1, nm + 1) if shape != "wide" else 1
        sc.main.append(("fd_open", u, 0, 0))
        x = r.random()
        if x < 0.75 or shape == "wide":
            fl = r.choice([0, 0, SRC_HIGH, SRC_AUTOFREE])
            conserve[u] = owner
        else:
            fl = r.choice([SRC_ONESHOT, SRC_FD_AUTOCLOSE, SRC_DUP, SRC_ONESHOT | SRC_DUP, SRC_ONESHOT | SRC_FD_AUTOCLOSE, SRC_DUP | SRC_FD_AUTOCLOSE])
            other.append((u, owner))
        sc.main.append(("fd_reg", owner, u, fl, sc.ud()))
        pend[u] = 0
        u += 1
    sc.meta["max_ufd"] = u + 2
    for i in range(1, nm + 1):
        # scripted errno poisoning in every handler invocation
        for n in range(40):
            ops = []
            if r.random() < 0.1:
                ops.append(("errno", r.randrange(1, 134)))
            sc.cb(i, "evt", n, ops, errno=r.choice([0, 4, 11, 5, 2, 9, 32, r.randrange(1, 134)]))
        sc.cb(i, "evt", "*", [], errno=r.choice([4, 11, 5, 9]))
    sigs = [10, 12, 34]
    sig_owner = {}
    steps = []
    nsteps = r.randrange(3, 16)
    tid = 0
    # the peer of one registered pipe goes away (EPOLLHUP): what was written before must still be delivered
    hup = {}
    hup_u = r.choice(list(conserve)) if (conserve and shape == "few" and r.random() < 0.4) else None
    hup_step = r.randrange(0, max(1, nsteps - 1)) if hup_u else None
    for k in range(nsteps):
        ops = []
        if hup_u is not None and k == hup_step:
            n_ = r.randrange(1, 3)
            ops += [("fd_write", hup_u)] * n_ + [("fd_hup", hup_u)]
            pend[hup_u] = 99                    # no more writes
            hup[hup_u] = conserve.pop(hup_u)
        # up to 5 tokens can be pending at hang-up and one is drained per loop iteration: deregister (the hang-up keeps the
        # descriptor readable for ever) only after 8 more iterations
        if hup_u is not None and k == hup_step + 8:
            ops.append(("fd_dereg", hup[hup_u], hup_u))
        if shape == "wide" and k == 1:
            for uu in conserve:
                ops.append(("fd_write", uu))
                pend[uu] += 1
        for _ in range(r.randrange(0, 5)):
            x = r.random()
            if x < 0.5 and (conserve or other):
                uu = r.choice(list(conserve) + [o[0] for o in other])
                if pend[uu] < 3:
                    ops.append(("fd_write", uu))
                    pend[uu] += 1
            elif x < 0.6:
                sg = r.choice(sigs)
                if sg not in sig_owner:
                    sig_owner[sg] = r.randrange(1, nm + 1)
                    ops.append(("sgn_reg", sig_owner[sg], sg, r.choice([0, SRC_ONESHOT]), sc.ud()))
                ops.append(("raise", sg))
            elif x < 0.7:
                ops.append(("tmr_reg", r.randrange(1, nm + 1), r.choice([1000000, 2000000, 1500000]), r.choice([0, SRC_ONESHOT, SRC_ONESHOT]), sc.ud(), 0))
            elif x < 0.78 and tasker:
                tid += 1
                ops.append(("task_reg", tasker, tid, 0, 0, r.choice([0, 100, 500]), r.randrange(100)))
            elif x < 0.84:
                m = r.randrange(1, nm + 1)
                ops.append((r.choice(["pause", "resume", "stop", "start"]), m))
            elif x < 0.9:
                ops.append(("tell", r.randrange(1, nm + 1), r.randrange(1, nm + 1), sc.pay(), 0))
            else:
                ops.append(("sleep", r.choice([200, 1000, 2500])))
        steps.append(ops)
    if hup_u is not None and hup_step + 8 >= nsteps:
        steps += [[] for _ in range(hup_step + 9 - nsteps)] + [[("fd_dereg", hup[hup_u], hup_u)]]
    sc.meta["hup"] = hup if shape != "quit_early" else {}
    if shape != "quit_early":
        steps += [[("sleep", 300)] if i % 2 else [] for i in range(8)]
        sc.meta["conserve"] = conserve
    else:
        sc.meta["conserve"] = {}
    driven_finish(sc, steps, rng=r)
    finalize_main(sc)
    return sc


def gen_registry(seed, mode="loop"):
    """C09: register/deregister sequences per source kind on idle, running, paused and stopped modules, keys from small
    colliding pools and from extremes, every removal order; no event is ever produced, so the keyed-set model is exact"""
    r = random.Random(seed * 29 + 13)
    with_loop = r.random() < 0.35
    sc = Sc(mode, "registry seed=%d loop=%d" % (seed, with_loop))
    driven_skeleton(sc)
    nm = r.randrange(1, 4)
    not_running = set()
    for i in range(1, nm + 1):
        sc.mod(i, "r%d" % i, 0, r.choice([0, 0, 4]))
        sc.cb(i, "stop", "*", [])
        sc.main.append(("reg", i))
        x = r.random()
        if x >= 0.4 and not (with_loop and x >= 0.65):
            not_running.add(i)          # paused / stopped (and idle when no loop will start it): a task registered there never runs
        if x < 0.4:
            sc.main.append(("start", i))
        elif x < 0.55:
            sc.main += [("start", i), ("pause", i)]
        elif x < 0.65:
            sc.main += [("start", i), ("stop", i)]
    sc.paths = 3
    nfd = r.randrange(2, 7)
    fd_owner = {}
    for u in range(1, nfd + 1):
        sc.main.append(("fd_open", u, r.choice([0, 1]), 0))
        fd_owner[u] = r.randrange(1, nm + 1)
    # descriptors the poll layer refuses (regular files): a registration on a RUNNING module must be rejected without trace
    unpoll = []
    for u in range(nfd + 1, nfd + 1 + r.randrange(0, 3)):
        sc.main.append(("fd_open", u, 2, 0))
        fd_owner[u] = r.randrange(1, nm + 1)
        unpoll.append(u)
    sc.meta["unpollable_fds"] = set(unpoll)
    nfd += len(unpoll)
    sc.meta["max_ufd"] = nfd + 2
    # one descriptor that two modules try to register (never auto-close): the poll layer refuses the second one
    # when both are polled; either way the counts must stay consistent
    shared = None
    if nm >= 2 and r.random() < 0.5:
        shared = r.choice(list(fd_owner))
        sc.meta["shared_fds"] = {shared}
    big = [10 ** 10, 10 ** 10 + 1, 2 * 10 ** 10, 1 << 40, (1 << 40) + (1 << 32), (1 << 40) + (1 << 31) + 7, 1 << 62, (1 << 62) + 5, (1 << 63) - 1, 3 * 10 ** 9]
    small = [1, 2, 1000, 999999]
    tmr_pool = r.sample(big, r.randrange(2, 7)) + ([] if with_loop else r.sample(small, r.randrange(0, 3)))
    # periods that the library's own timers (batch timeout, token bucket refill at 1 / 2 / 10 per second) can have too
    tmr_pool += r.sample([10 ** 9, 5 * 10 ** 8, 10 ** 8], r.randrange(0, 3))
    sgn_pool = r.sample([10, 12, 34, 35, 36, 37], r.randrange(2, 5))
    thr_pool = r.sample([(1, 0), (2, 0), (1, 1000), (0, 1000), (3, 0), (2, 1000), (1, 2000), (0, 3000), (5, 500), (4, 1500),
                         (1, 1250), (1, 1750), (0, 250), (0, 750), (5, 900), (4, 1900)], r.randrange(2, 9))      # (inactive ms, activity frequency in 1/1000)
    top_pool = [sc.topic(t) for t in r.sample(["alpha", "beta", "gamma", "ab1", "ab2", "^ab.*", "g.mma"], r.randrange(2, 6))]

    def one(m):
        k = r.choice(["fd", "tmr", "tmr", "sgn", "sgn", "thresh", "thresh", "sub", "path", "pid", "task", "life", "bad", "internal"])
        reg = r.random() < 0.6
        if k == "internal":
            # the library's own timers never show up in, nor disturb, the user's set of timers
            # (the batch timeout is cleared again at once: delayed deliveries would blur when one-shot sources are gone)
            if r.random() < 0.5:
                return [("ATOMIC", ("btimeout", m, r.choice(tmr_pool)), ("srclen", m), ("btimeout", m, 0))]
            return [("tb", m, r.choice([0, 1, 2, 10]), 1000000)]
        if k == "fd":
            u = r.choice([x for x in fd_owner if fd_owner[x] == m] or [None])
            if shared is not None and r.random() < 0.4:
                u = shared
                if reg:
                    return [("fd_reg", m, u, r.choice([0, SRC_HIGH]), sc.ud())]
            if u is None:
                return []
            if reg:
                fl = r.choice([0, 0, SRC_HIGH, SRC_AUTOFREE, SRC_ONESHOT, SRC_DUP])
                if u in unpoll:
                    fl = r.choice([0, SRC_DUP, SRC_DUP, SRC_AUTOFREE, SRC_DUP | SRC_AUTOFREE])
                if u == shared:
                    fl = 0
                return [("fd_reg", m, u, fl, sc.ud())]
            return [("fd_dereg", m, u)]
        if k == "tmr":
            ns = r.choice(tmr_pool)
            if reg and r.random() < 0.08:
                return [("tmr_reg", m, 77000000000 + r.randrange(3), r.choice([0, SRC_AUTOFREE]), sc.ud(), 9)]      # invalid clock id: cannot be polled
            return [("tmr_reg", m, ns, r.choice([0, SRC_LOW, SRC_HIGH, SRC_AUTOFREE]), sc.ud(), r.choice([0, 0, 1]))] if reg else [("tmr_dereg", m, ns)]
        if k == "sgn":
            sg = r.choice(sgn_pool)
            return [("sgn_reg", m, sg, r.choice([0, SRC_ONESHOT, SRC_HIGH]), sc.ud())] if reg else [("sgn_dereg", m, sg)]
        if k == "thresh":
            a, b = r.choice(thr_pool)
            return [("thresh_reg", m, a, b, 0, sc.ud())] if reg else [("thresh_dereg", m, a, b)]
        if k == "sub":
            t = r.choice(top_pool)
            return [("sub", m, t, r.choice([0, 0, SRC_LOW, SRC_HIGH, SRC_DUP, SRC_AUTOFREE]), sc.ud())] if reg else [("unsub", m, t)]
        if k == "path":
            pi = r.randrange(3)
            return [("path_reg", m, pi, r.choice([0, SRC_DUP]), sc.ud(), 256)] if reg else [("path_dereg", m, pi)]
        if k == "pid":
            pv = r.choice([0, 1, 4194000])          # self, init, (almost certainly) no such process
            return [("pid_reg", m, 0, 0, sc.ud(), pv)] if reg else [("pid_dereg", m, 0, 0, 0, pv)]
        if k == "task":
            tid = r.randrange(1, 5)
            if reg and m not in not_running:
                return []           # known finding "task outlives its source": no task is started in this profile
            return [("task_reg", m, tid, 0, 0, 0, 1)] if reg else [("task_dereg", m, tid)]
        if k == "life":
            return [(r.choice(["pause", "resume", "pause", "resume", "stop", "start"]), m)]
        return [r.choice([("tmr_reg", m, 0, 0, sc.ud(), 0), ("sgn_reg", m, 0, 0, sc.ud()), ("thresh_reg", m, 0, 0, 0, sc.ud()),
                          ("fd_reg", m, r.choice(list(fd_owner)), SRC_LOW, sc.ud()), ("tmr_reg", m, 5 * 10 ** 9, 3, sc.ud(), 0),
                          ("sub", m, r.choice(top_pool), 6, sc.ud()), ("task_dereg", m, 1)])]

    def task_safe(ops, running_guess):
        return ops

    body = []
    for _ in range(r.randrange(15, 90)):
        m = r.randrange(1, nm + 1)
        body += one(m)
        if r.random() < 0.15:
            body.append(("srclen", m))
        elif r.random() < 0.1:
            body.append(("srclen", m, r.randrange(0, 8)))       # count of one kind only (0 = subscriptions ... 7 = thresholds)
    # tasks only on modules that are not running at that point cannot be known statically: drop task_reg followed by a
    # state change of the same module (known finding: task outlives its source)
    cleaned = []
    tasked = set()
    for op in body:
        if op[0] == "task_reg":
            tasked.add(op[1])
        if op[0] in ("stop", "pause", "start", "resume") and op[1] in tasked:
            continue
        cleaned.append(op)
    body = cleaned
    sc.meta["tasked"] = sorted(tasked)
    if with_loop:
        def flat(ops):
            return [y for x in ops for y in (x[1:] if x[0] == "ATOMIC" else [x])]
        cut = r.randrange(0, len(body) + 1)
        sc.main += flat(body[:cut])
        rest = body[cut:]
        steps = [flat(rest[i:i + 3]) for i in range(0, len(rest), 3)]
        runs = [steps[:len(steps) // 2], steps[len(steps) // 2:]] if r.random() < 0.5 else [steps]
        driven_multi(sc, runs, [[] for _ in runs], rng=r)
    else:
        sc.main += [y for x in body for y in (x[1:] if x[0] == "ATOMIC" else [x])]
        sc.main.append(("LOOP_NONE",))
        order = sorted(sc.mods)
        r.shuffle(order)
        for s_ in order:
            sc.main.append(("dereg", s_))
        sc.main.append(("ctx_deregister",))
        for s_ in order:
            sc.main.append(("obs_drop", s_))
        for u in range(0, nfd + 2):
            sc.main.append(("fd_close", u))
        sc.main.append(("quiesce",))
        sc.main = [op for op in sc.main if op[0] != "LOOP_NONE"]
    finalize_main(sc)
    return sc


def gen_batching(seed, mode="loop", resub=False):
    """C13: one target module with LOW / NORMAL / HIGH subscriptions and a descriptor source; serialised production: after
    every burst the driver idles for more poll batches than events are outstanding, so arrival order and the settings in
    force at each arrival are unambiguous"""
    r = random.Random(seed * 37 + 17)
    sc = Sc(mode, "batching seed=%d" % seed)
    driven_skeleton(sc)
    T, S2 = 1, 2
    sc.mod(T, "target", 0, r.choice([0, 4]))
    sc.mod(S2, "sender", 0, 0)
    sc.cb(T, "stop", "*", [])
    sc.cb(T, "evt", "*", [])
    sc.cb(S2, "evt", "*", [])
    sc.main += [("reg", T), ("reg", S2), ("start", T), ("start", S2)]
    tl, tn, th = sc.topic("alpha"), sc.topic("beta"), sc.topic("gamma")
    sc.main += [("sub", T, tl, SRC_LOW, sc.ud()), ("sub", T, tn, r.choice([0, SRC_NORM]), sc.ud()), ("sub", T, th, SRC_HIGH, sc.ud())]
    sc.main += [("fd_open", 1, 0, 0), ("fd_reg", T, 1, 0, sc.ud())]
    sc.meta["batch_target"] = T
    sc.meta["batch_fds"] = {1: T}
    sc.meta["serialised"] = True
    sc.meta["max_ufd"] = 4
    use_timeout = r.random() < 0.12
    sc.meta["batch_timeout_used"] = use_timeout
    steps = []

    def settle(n):
        for _ in range(n + 2):
            steps.append([])

    throttle = r.random() < 0.2
    if throttle:
        # a token bucket that never runs dry but whose refill timer ticks every millisecond: the refill is an internal event
        # of the module and must not hand over what is being accumulated
        sc.main.append(("tb", T, 1000, 1000000))
    if use_timeout:
        t0_ = r.choice([3000000, 5000000])
        if r.random() < 0.5:
            sc.main += [("bsize", T, r.choice([0, 0, 64])), ("btimeout", T, t0_)]
            if r.random() < 0.4:
                sc.main.append(("btimeout", T, t0_))         # applying the same timeout again must keep it in force
        else:
            # same settings, other order of the calls; then a burst of normal events in one step: only the timeout
            # delivers them (together)
            sc.main += [("btimeout", T, t0_), ("bsize", T, 0)]
            steps.append([("publish", S2, tn, sc.pay(), 0) for _ in range(r.randrange(2, 5))])
            settle(4)
    elif r.random() < 0.08:
        # a setter refused for lack of tokens has no effect: 1 token, spent on a subscription, then the refused setters
        sc.main += [("tb", T, 1, 1), ("sub", T, sc.topic("ab1"), 0, sc.ud()), ("btimeout", T, 3000000), ("bsize", T, 5)]
        steps.append([("publish", S2, tn, sc.pay(), 0)])
        settle(1)
        steps.append([("tb", T, 0, 0)])
    elif r.random() < 0.7:
        sc.main.append(("bsize", T, r.choice([0, 1, 2, 3, 7, 2, 3])))
    if r.random() < 0.2:
        # set-then-clear probe: with neither a size nor a timeout in force any more, a normal event is delivered at once
        steps.append([("bsize", T, 0), ("btimeout", T, r.choice([3000000, 5000000]))])
        steps.append([("btimeout", T, 0)])
        steps.append([("publish", S2, tn, sc.pay(), 0)])
        settle(1)
        if use_timeout:
            steps.append([("btimeout", T, t0_)])
    if throttle:
        steps.append([("publish", S2, tl, sc.pay(), 0) for _ in range(r.randrange(1, 4))])
        steps += [[("sleep", 2500)], [], [("sleep", 2500)], []]
        steps.append([("publish", S2, tn, sc.pay(), 0)])
        settle(1)
    r2 = random.Random(seed * 233 + 199)
    for phase in range(r.randrange(3, 10) if not use_timeout else r.randrange(2, 5)):
        if resub and r2.random() < 0.4:
            # the same topic subscribed again with another priority (ownership flags unchanged): from now on the events of
            # that topic have the new priority
            steps.append([("sub", T, r2.choice([tl, tn, th]), r2.choice([SRC_LOW, 0, SRC_NORM, SRC_HIGH]), sc.ud())])
            steps.append([])
        x = r.random()
        if x < 0.2 and not use_timeout:
            steps.append([("bsize", T, r.choice([0, 1, 2, 3, 7, 64]))])
        elif x < 0.3 and use_timeout:
            if r.random() < 0.5:
                # set-then-clear: afterwards (no size, no timeout) normal events are delivered at once again
                steps.append([("bsize", T, 0), ("btimeout", T, r.choice([3000000, 5000000]))])
                steps.append([("btimeout", T, 0)])
                steps.append([("publish", S2, tn, sc.pay(), 0)])
                settle(1)
                continue
            steps.append([("btimeout", T, r.choice([0, 0, 3000000, 5000000]))])
        elif x < 0.32:
            steps.append([("pause", T)])
            n = r.randrange(1, 4)
            steps.append([("publish", S2, r.choice([tl, tn, th]), sc.pay(), 0) for _ in range(n)])
            steps.append([("resume", T)])
            settle(n)
            continue
        elif x < 0.38:
            steps.append([("stop", T)])
            steps.append([("start", T), ("sub", T, tl, SRC_LOW, sc.ud()), ("sub", T, tn, 0, sc.ud()), ("sub", T, th, SRC_HIGH, sc.ud()), ("fd_reg", T, 1, 0, sc.ud())])
            steps.append([("publish", S2, tn, sc.pay(), 0)])        # probe: settings are back to default
            settle(1)
            continue
        n = r.randrange(1, 6)
        ops = []
        kind = r.choice(["ps", "ps", "ps", "fd"])
        if kind == "fd":
            n = min(n, 3)
            for _ in range(n):
                ops.append(("fd_write", 1))
        else:
            for _ in range(n):
                y = r.random()
                if y < 0.35:
                    ops.append(("publish", S2, tn, sc.pay(), 0))
                elif y < 0.6:
                    ops.append(("publish", S2, tl, sc.pay(), 0))
                elif y < 0.75:
                    ops.append(("publish", S2, th, sc.pay(), 0))
                else:
                    ops.append(("tell", S2, T, sc.pay(), 0))      # (no broadcast: it would also wake the driver and eat settle steps)
        steps.append(ops)
        settle(n)
        if use_timeout:
            for _ in range(5):
                steps.append([("sleep", 7000)])
            settle(1)
    driven_finish(sc, steps, rng=r)
    finalize_main(sc)
    return sc


def gen_stash_become(seed, mode="loop"):
    """C16/C17: a target module that stashes told / published events from inside its handlers, unstash(n) with every n around
    the stash size from inside handlers and from driver steps, become/unbecome from both places, replays under another
    handler, stop/start cycles"""
    r = random.Random(seed * 41 + 19)
    sc = Sc(mode, "stash_become seed=%d" % seed)
    driven_skeleton(sc)
    T, S2 = 1, 2
    # (a quarter of the targets are M_MOD_DENY_CTX modules: the flag denies the context API to their callbacks, not the
    # module API - stash / unstash / become / unbecome from their own handlers work like for any other module)
    sc.mod(T, "target", MOD_DENY_CTX if r.random() < 0.25 else 0, r.choice([0, 4, 6]))
    sc.mod(S2, "sender", 0, 0)
    for k in ("start", "stop"):
        sc.cb(T, k, "*", [], ret=1)
    sc.cb(S2, "evt", "*", [])
    sc.main += [("reg", T), ("reg", S2), ("start", T), ("start", S2)]
    tn, th, tl = sc.topic("beta"), sc.topic("gamma"), sc.topic("alpha")
    # (a third of the targets give their normal-priority subscription an auto-free user pointer and later repeat the
    # subscription with another one: events stashed before keep the pointer they were delivered with, valid)
    nfl = SRC_AUTOFREE if r.random() < 0.33 else 0
    sc.main += [("sub", T, tn, nfl, sc.ud()), ("sub", T, th, SRC_HIGH, sc.ud()), ("sub", T, tl, SRC_LOW, sc.ud())]
    sc.main += [("fd_open", 1, 0, 0), ("fd_reg", T, 1, 0, sc.ud())]
    sc.meta["max_ufd"] = 4
    nmax = [1, 2, 3, -1, 1, 2, 5, 64]
    # a third of the scenarios throttle the target: stash/unstash/become/unbecome each cost a token, a call refused for
    # lack of one (-EAGAIN) must leave stash and handler stack exactly as they were
    throttled = r.random() < 0.35
    if throttled:
        sc.main.append(("tb", T, r.choice([1, 2, 5]), r.choice([1, 2, 3, 4])))

    def hops():
        ops = []
        for _ in range(r.randrange(0, 4)):
            x = r.random()
            if x < 0.45:
                ops.append(("stash", -1, r.randrange(0, 3)))
            elif x < 0.6:
                ops.append(("unstash", -1, r.choice(nmax)))
            elif x < 0.8:
                ops.append(("become", -1, r.randrange(4)))
            elif x < 0.93:
                ops.append(("unbecome", -1))
            else:
                # a full stop/start cycle of the own module inside one handler invocation: it comes back with its original
                # handler and an empty stash
                ops += [("stop", -1), ("start", -1), ("sub", -1, tn, nfl, sc.ud()), ("sub", -1, th, SRC_HIGH, sc.ud()), ("fd_reg", -1, 1, 0, sc.ud())]
        return ops
    for n in range(30):
        sc.cb(T, "evt", n, hops() if r.random() < 0.7 else [])
    sc.cb(T, "evt", "*", [])
    steps = []
    faulty = r.random() < 0.3       # scenarios with injected allocation failures
    for k in range(r.randrange(6, 30)):
        ops = []
        for _ in range(r.randrange(0, 4)):
            x = r.random()
            if x < 0.3:
                ops.append(("tell", S2, T, sc.pay(), 0))
            elif x < 0.5:
                ops.append(("publish", S2, r.choice([tn, tn, th, tl]), sc.pay(), 0))
            elif x < 0.58:
                ops.append(("fd_write", 1))
            elif x < 0.7:
                if faulty and r.random() < 0.4:
                    ops.append(("fault", 1))        # the first allocation of the call fails: refused, nothing changes
                ops.append(("unstash", T, r.choice(nmax + [0])))
            elif x < 0.8:
                if faulty and r.random() < 0.3:
                    ops.append(("fault", 1))
                ops.append(("become", T, r.randrange(4)))
            elif x < 0.87:
                ops.append(("unbecome", T))
            elif x < 0.92:
                ops.append((r.choice(["pause", "resume"]), T))
            elif throttled and x < 0.94:
                ops.append(("tb", T, r.choice([0, 1, 3]), r.choice([1, 2, 5])))
            elif nfl and x < 0.945:
                ops.append(("sub", T, tn, nfl, sc.ud()))
            elif x < 0.96:
                ops += [("stop", T)]
            else:
                ops += [("start", T), ("sub", T, tn, nfl, sc.ud()), ("sub", T, th, SRC_HIGH, sc.ud()), ("fd_reg", T, 1, 0, sc.ud())]
        steps.append(ops)
    steps += [[], [("unstash", T, -1)], []]
    driven_finish(sc, steps, rng=r)
    finalize_main(sc)
    return sc


def gen_stash_userdata(seed, mode="loop"):
    """C16: an event is stashed, then the subscription (or descriptor source) it came through gets another user pointer -
    the same topic subscribed again with the same flags, which updates the pointer in place - and the event is unstashed:
    it is redelivered with its original content, user data included"""
    r = random.Random(seed * 179 + 151)
    sc = Sc(mode, "stashed event vs. replaced user pointer seed=%d" % seed)
    driven_skeleton(sc)
    T, S2 = 1, 2
    sc.mod(T, "target", 0, r.choice([0, 4]))
    sc.mod(S2, "sender", 0, 0)
    sc.cb(T, "stop", "*", [])
    sc.cb(S2, "evt", "*", [])
    sc.main += [("reg", T), ("reg", S2), ("start", T), ("start", S2)]
    tn = sc.topic(r.choice(["beta", "alpha"]))
    fl = r.choice([0, 0, SRC_LOW, SRC_DUP])
    sc.main.append(("sub", T, tn, fl, sc.ud()))
    n_msgs = r.randrange(1, 4)
    for n in range(n_msgs):
        sc.cb(T, "evt", n, [("stash", -1, 0)])
    sc.cb(T, "evt", "*", [])
    steps = [[]]
    steps.append([("publish", S2, tn, sc.pay(), 0) for _ in range(n_msgs)])
    steps += [[], [], []]
    steps.append([("sub", T, tn, fl, sc.ud())])             # same topic, same flags: only the user pointer is replaced
    if r.random() < 0.5:
        steps.append([("publish", S2, tn, sc.pay(), 0)])    # a fresh delivery carries the new pointer
        steps += [[], []]
    steps.append([("unstash", T, r.choice([-1, 1, n_msgs, 64]))])
    steps += [[], [("unstash", T, -1)], []]
    driven_finish(sc, steps, rng=r)
    finalize_main(sc)
    return sc


def gen_paused_recipient_stopped(seed, mode="loop"):
    """C02: a PAUSED module (eligible: its mail is kept) is sent auto-free payloads - alone and together with a running
    co-subscriber - and is then stopped / deregistered / replaced while still PAUSED: the messages are discarded and every
    payload is released exactly once"""
    r = random.Random(seed * 193 + 167)
    sc = Sc(mode, "auto-free mail to a paused module that is stopped while paused seed=%d" % seed)
    driven_skeleton(sc)
    R, S2, O = 1, 2, 3
    sc.mod(R, "rcpt", r.choice([0, MOD_ALLOW_REPLACE]), r.choice([0, 4]))
    sc.mod(S2, "sender", 0, 0)
    sc.mod(O, "other", 0, 0)
    sc.mod(4, "rcpt", 0, 0)            # replacement candidate (same name)
    sc.cb(R, "stop", "*", [])
    for m in (R, S2, O, 4):
        sc.cb(m, "evt", "*", [])
    tl = sc.topic("alpha")
    sc.main += [("reg", R), ("reg", S2), ("reg", O), ("start", R), ("start", S2), ("start", O),
                ("sub", R, tl, 0, sc.ud()), ("sub", O, tl, 0, sc.ud())]
    sends = []
    for _ in range(r.randrange(1, 4)):
        x = r.random()
        if x < 0.45:
            sends.append(("tell", S2, R, sc.pay(True), PS_AUTOFREE))
        elif x < 0.85:
            sends.append(("publish", S2, tl, sc.pay(True), PS_AUTOFREE))
        else:
            sends.append(("publish", S2, -1, sc.pay(True), PS_AUTOFREE))
    end = r.choice(["stop", "dereg", "dereg", "replace"])
    if end == "replace" and not (sc.mods[R][1] & MOD_ALLOW_REPLACE):
        end = "stop"
    fin = [("reg", 4)] if end == "replace" else [(end, R)]
    where = r.choice(["same_step", "later"])
    if where == "same_step":
        steps = [[], [("pause", R)] + sends + fin, [], [], []]
    else:
        steps = [[], [("pause", R)], sends, [], fin, [], []]
    driven_finish(sc, steps, rng=r)
    finalize_main(sc)
    return sc


def gen_tb_refused_ownership(seed, mode="loop"):
    """C18: registrations that hand something over to the library (a descriptor to close automatically, a user pointer to
    free automatically) are refused for lack of a token: the caller keeps what it handed in - the descriptor stays open, the
    pointer allocated - and the same registration succeeds once the limit is lifted"""
    r = random.Random(seed * 197 + 173)
    sc = Sc(mode, "refused registrations carrying auto-close / auto-free seed=%d" % seed)
    driven_skeleton(sc)
    T, K = 1, 2
    sc.mod(T, "throttled", 0, 0)
    sc.mod(K, "sink", 0, 0)
    sc.cb(T, "evt", "*", [])
    sc.cb(K, "evt", "*", [])
    sc.main += [("reg", T), ("reg", K), ("start", T), ("start", K)]
    sc.main += [("fd_open", 1, 0, 0), ("fd_open", 2, 0, 0), ("fd_open", 3, 1, 0)]
    sc.meta["max_ufd"] = 5
    sc.meta["tb_probes"] = [(T, 0)]
    burst = r.randrange(1, 4)
    tp = sc.topic("alpha")
    spend = [r.choice([("bsize", T, 0), ("tell", T, K, sc.pay(), 0), ("unsub", T, tp)]) for _ in range(burst + 2)]
    owning = [("fd_reg", T, 1, SRC_FD_AUTOCLOSE, sc.ud()),
              ("fd_reg", T, 2, SRC_FD_AUTOCLOSE | SRC_DUP, sc.ud()),
              ("fd_reg", T, 3, SRC_AUTOFREE, sc.ud()),
              ("tmr_reg", T, 5000000, SRC_AUTOFREE, sc.ud(), 0),
              ("sgn_reg", T, 12, SRC_AUTOFREE, sc.ud()),
              ("sub", T, sc.topic("beta"), SRC_AUTOFREE, sc.ud())]
    r.shuffle(owning)
    owning = owning[:r.randrange(2, len(owning) + 1)]
    steps = [[], [("tb", T, 1, burst)] + spend + owning + [("srclen", T)], []]
    # limit lifted: the very same registrations are accepted now (their descriptors are still open)
    steps.append([("tb", T, 0, 0)] + owning + [("srclen", T)])
    steps += [[], []]
    driven_finish(sc, steps, rng=r)
    finalize_main(sc)
    return sc


def gen_path_gone(seed, mode="loop"):
    """C20: path sources whose watch cannot be set because the directory is gone - registered on a running module after the
    directory was removed, or registered first and re-added to the poll set (resume, stop/start) after it was removed:
    whether the library accepts or refuses them, every descriptor it opened for them is closed in the end"""
    r = random.Random(seed * 199 + 179)
    sc = Sc(mode, "path sources on a directory that is gone seed=%d" % seed)
    driven_skeleton(sc)
    M = 1
    sc.mod(M, "watcher", 0, r.choice([0, 4]))
    sc.cb(M, "stop", "*", [])
    sc.cb(M, "evt", "*", [])
    sc.paths = 2
    sc.main += [("reg", M), ("start", M)]
    variant = r.choice(["register_missing", "resume_missing", "restart_missing"])
    fl = r.choice([0, SRC_DUP])
    steps = [[]]
    if variant == "register_missing":
        steps.append([("rmpath", 0)] + [("path_reg", M, 0, fl, sc.ud(), 256) for _ in range(r.randrange(1, 4))] + [("srclen", M)])
        steps.append([("path_reg", M, 1, fl, sc.ud(), 256), ("touch", 1)])
    elif variant == "resume_missing":
        steps.append([("path_reg", M, 0, fl, sc.ud(), 256), ("pause", M), ("rmpath", 0)])
        for _ in range(r.randrange(1, 4)):
            steps.append([("resume", M), ("srclen", M)])
            steps.append([("pause", M)])
        steps.append([("resume", M)])
    else:
        steps.append([("path_reg", M, 0, fl, sc.ud(), 256), ("rmpath", 0), ("pause", M), ("resume", M), ("srclen", M)])
        steps.append([("path_dereg", M, 0), ("path_reg", M, 0, fl, sc.ud(), 256)])
    steps += [[], [r.choice([("stop", M), ("dereg", M), ("srclen", M)])], []]
    driven_finish(sc, steps, rng=r)
    finalize_main(sc)
    return sc


def gen_oneshot_sub_replaced(seed, mode="loop"):
    """C09: a one-shot subscription is replaced (same topic subscribed again with other flags) while a message matched by it is
    still in flight: when that message is delivered the old subscription fires - the new one stays in the set (count, a
    later unsubscribe succeeds exactly once); the plain case - nothing replaced - loses the subscription after one event"""
    r = random.Random(seed * 211 + 181)
    sc = Sc(mode, "one-shot subscription replaced while its message is in flight seed=%d" % seed)
    driven_skeleton(sc)
    M, S2 = 1, 2
    sc.mod(M, "subscriber", 0, 0)
    sc.mod(S2, "sender", 0, 0)
    sc.cb(M, "evt", "*", [("srclen", -1)])
    sc.cb(S2, "evt", "*", [])
    sc.main += [("reg", M), ("reg", S2), ("start", M), ("start", S2)]
    tl = sc.topic(r.choice(["alpha", "beta"]))
    fl0 = SRC_ONESHOT | r.choice([0, SRC_DUP])
    sc.main.append(("sub", M, tl, fl0, sc.ud()))
    replaced = r.random() < 0.7
    newfl = r.choice([0, SRC_HIGH, SRC_DUP, SRC_ONESHOT | SRC_HIGH])
    step = [("publish", S2, tl, sc.pay(), 0)]
    if replaced:
        step.append(("sub", M, tl, newfl, sc.ud()))
    step.append(("srclen", M))
    steps = [[], step, [], [], [("srclen", M)], [("publish", S2, tl, sc.pay(), 0)], [], [], [("srclen", M), ("unsub", M, tl), ("srclen", M), ("unsub", M, tl)], []]
    driven_finish(sc, steps, rng=r)
    finalize_main(sc)
    return sc


def gen_full_mailbox_broadcast(seed, mode="loop"):
    """C02: a topic-less broadcast (and a topic publish) sent while ONE module's mailbox is full (more than 8192 messages
    pending for a paused or running recipient): the recipient with the full mailbox may lose it, every other eligible module -
    wherever it sits in the context's module table, hence 4-9 bystanders with seed-dependent names - must still get it,
    exactly once"""
    r = random.Random(seed * 229 + 197)
    sc = Sc(mode, "broadcast while one mailbox is full seed=%d" % seed)
    driven_skeleton(sc)
    F, S2 = 1, 2
    sc.mod(F, "full%d" % r.randrange(100), 0, 0)
    sc.mod(S2, "sender%d" % r.randrange(100), 0, 0)
    by = list(range(3, 3 + r.randrange(4, 10)))
    for b in by:
        sc.mod(b, "%s%d" % (r.choice(["by", "lst", "m", "watcher_"]), r.randrange(1000) * 16 + b), 0, 0)
    tp = sc.topic("alpha")
    for s in [F, S2] + by:
        sc.cb(s, "evt", "*", [])
        sc.main += [("reg", s), ("start", s)]
    for b in by:
        if r.random() < 0.6:
            sc.main.append(("sub", b, tp, r.choice([0, SRC_DUP, SRC_HIGH]), sc.ud()))
    paused_by = [b for b in by if r.random() < 0.2]
    n = r.choice([8193, 8200, 8300, 9000])
    ops = [("pause", b) for b in paused_by]
    paused_full = r.random() < 0.7
    if paused_full:
        ops.append(("pause", F))
    ops += [("tell", S2, F, sc.pay(), 0) for _ in range(n)]
    ops.append(("publish", S2, -1, sc.pay(), 0))
    ops.append(("publish", r.choice(by), tp, sc.pay(), 0))
    if r.random() < 0.5:
        ops.append(("publish", r.choice(by), -1, sc.pay(True), PS_AUTOFREE))
    steps = [[], ops] + [[] for _ in range(4)]
    steps.append([("resume", b) for b in paused_by] + ([("resume", F)] if paused_full else []))
    steps += [[] for _ in range(5)]
    driven_finish(sc, steps, rng=r)
    finalize_main(sc)
    return sc


def gen_resub_dup(seed, mode="loop"):
    """C04/C09: a topic subscribed with M_SRC_DUP (the library keeps its own copy of the topic string) is subscribed again with
    other flags - the new subscription replaces the old one, whose copy is released - and the topic is then looked up again
    and again (publish, subscribe, unsubscribe): nothing may still point into the released copy"""
    r = random.Random(seed * 223 + 191)
    sc = Sc(mode, "re-subscription of a duplicated topic with other flags seed=%d" % seed)
    driven_skeleton(sc)
    M, S2 = 1, 2
    sc.mod(M, "subscriber", 0, 0)
    sc.mod(S2, "sender", 0, 0)
    sc.cb(M, "evt", "*", [])
    sc.cb(S2, "evt", "*", [])
    sc.main += [("reg", M), ("reg", S2), ("start", M), ("start", S2)]
    tops = [sc.topic(t) for t in r.sample(["alpha", "beta", "gamma", "ab1", "ab2"], r.randrange(1, 4))]
    flagsets = [SRC_DUP, SRC_DUP | SRC_HIGH, SRC_DUP | SRC_LOW, SRC_DUP | SRC_AUTOFREE, 0, SRC_HIGH, SRC_DUP | SRC_ONESHOT]
    cur = {}
    for t in tops:
        cur[t] = r.choice([SRC_DUP, SRC_DUP, SRC_DUP | SRC_AUTOFREE, SRC_DUP | SRC_LOW])
        sc.main.append(("sub", M, t, cur[t], sc.ud()))
    steps = [[]]
    for _ in range(r.randrange(2, 6)):
        t = r.choice(tops)
        nf = r.choice([f for f in flagsets if f != cur[t]])
        cur[t] = nf
        ops = [("sub", M, t, nf, sc.ud()), ("srclen", M)]
        # lookups of the same and of the other topics
        for _k in range(r.randrange(1, 4)):
            x = r.random()
            t2 = r.choice(tops)
            if x < 0.4:
                ops.append(("publish", S2, t2, sc.pay(), 0))
            elif x < 0.7:
                ops.append(("sub", M, t2, cur[t2], sc.ud()))        # same flags: updated in place
            else:
                ops.append(("srclen", M, 0))
        steps.append(ops)
        steps.append([])
    steps.append([("unsub", M, t) for t in tops] + [("srclen", M)] + [("unsub", M, tops[0])])
    steps += [[]]
    driven_finish(sc, steps, rng=r)
    finalize_main(sc)
    return sc


def gen_stash_corners(seed, mode="loop"):
    """C16/C04: corners of the stash - unstash refused for lack of a token (several times in a row: nothing may be lost or left
    behind), stash kept over pause but dropped by a stop that comes while the module is PAUSED (directly or through a poison
    pill), then restart and unstash: only what was stashed after the restart comes back"""
    r = random.Random(seed * 227 + 193)
    variant = r.choice(["throttled_unstash", "pause_stop_restart", "pill_on_paused"])
    sc = Sc(mode, "stash corners (%s) seed=%d" % (variant, seed))
    driven_skeleton(sc)
    T, S2 = 1, 2
    sc.mod(T, "target", 0, r.choice([0, 4]))
    sc.mod(S2, "sender", 0, 0)
    sc.cb(T, "stop", "*", [])
    sc.cb(S2, "evt", "*", [])
    sc.main += [("reg", T), ("reg", S2), ("start", T), ("start", S2)]
    n1 = r.randrange(1, 4)
    for n in range(n1):
        sc.cb(T, "evt", n, [("stash", -1, 0)])
    tell = lambda: ("tell", S2, T, sc.pay(), 0)
    steps = [[], [tell() for _ in range(n1)], [], [], []]
    if variant == "throttled_unstash":
        sc.cb(T, "evt", "*", [])
        b = r.randrange(1, 3)
        spend = [("bsize", T, 0) for _ in range(b + 1)]
        steps.append([("tb", T, 1, b)] + spend + [("unstash", T, r.choice([1, 2, -1])) for _ in range(r.randrange(1, 4))])
        steps.append([("tb", T, 0, 0), ("unstash", T, -1)])
    else:
        n2 = r.randrange(1, 3)
        for n in range(n1, n1 + n2):
            sc.cb(T, "evt", n, [("stash", -1, 0)])
        sc.cb(T, "evt", "*", [])
        steps.append([("pause", T)])
        steps.append([("stop", T)] if variant == "pause_stop_restart" else [("pill", S2, T)])
        steps += [[], [], []]
        steps.append([("start", T)])
        steps.append([tell() for _ in range(n2)])
        steps += [[], [], []]
        steps.append([("unstash", T, -1)])
    steps += [[], [("unstash", T, -1)], []]
    driven_finish(sc, steps, rng=r)
    finalize_main(sc)
    return sc


def gen_pause_others_in_batch(seed, mode="loop"):
    """C01/C04: three to five modules have mail in the same poll batch; the handler served first pauses (stops, deregisters)
    all the others, in the order of their slots or the reverse: none of them is handed its pending event while not RUNNING"""
    r = random.Random(seed * 229 + 197)
    sc = Sc(mode, "handler served first takes the other recipients of the batch out seed=%d" % seed)
    driven_skeleton(sc)
    n = r.randrange(3, 6)
    mods = list(range(1, n + 1))
    what = r.choice(["pause", "pause", "stop", "dereg"])
    rev = r.random() < 0.5
    for i in mods:
        sc.mod(i, "m%d" % i, 0, r.choice([0, 4]))
        sc.cb(i, "stop", "*", [])
        others = [j for j in mods if j != i]
        if rev:
            others.reverse()
        sc.cb(i, "evt", 0, [(what, j) for j in others])
        sc.cb(i, "evt", "*", [])
        sc.main += [("reg", i), ("start", i)]
    tl = sc.topic("alpha")
    for i in mods:
        sc.main.append(("sub", i, tl, 0, sc.ud()))
    how = r.choice(["publish", "tell"])
    burst = [("publish", DRV, tl, sc.pay(), 0)] if how == "publish" else [("tell", DRV, i, sc.pay(), 0) for i in mods]
    steps = [[], burst, [], [], [], []]
    if what == "pause":
        steps.append([("resume", i) for i in mods])
        steps += [[], []]
    driven_finish(sc, steps, rng=r)
    finalize_main(sc)
    return sc


_M64 = (1 << 64) - 1


def map_slot(key, size=256):
    """home slot of a key in the library's string map (djb2 + murmur3 finaliser, Lib/structs/map.c): used to build names and
    topics whose entries share a probe chain - if the library ever changes its hash these are just ordinary names"""
    x = 5381
    for ch in key.encode():
        x = ((x << 5) + x + ch) & _M64
    x ^= x >> 16
    x = (x * 0x85ebca6b) & _M64
    x ^= x >> 13
    x = (x * 0xc2b2ae35) & _M64
    x ^= x >> 16
    return x % size


_CHAIN_CACHE = {}


def chain_keys(r, prefix, n, shape):
    """n distinct keys '<prefix><number>' whose home slots form one probe chain of the 256-slot table: shape 'same' (one slot),
    'run' (consecutive slots, some shared) or 'wrap' (a run that crosses from slot 255 to slot 0)"""
    by = _CHAIN_CACHE.get(prefix)
    if by is None:
        by = {}
        for i in range(1, 4000):
            k = "%s%d" % (prefix, i)
            by.setdefault(map_slot(k), []).append(k)
        _CHAIN_CACHE[prefix] = by
    if shape == "same":
        slot = r.choice([s_ for s_, ks in by.items() if len(ks) >= n])
        slots = [slot] * n
    elif shape == "wrap":
        start = 256 - r.randrange(1, n)
        slots = sorted(((start + r.randrange(0, n)) % 256 for _ in range(n)), key=lambda x: (x - start) % 256)
        slots[0] = start % 256
        if not any(x < 128 for x in slots):
            slots[-1] = 0
    else:
        start = r.randrange(0, 250)
        slots = sorted(start + r.randrange(0, max(1, n - 1)) for _ in range(n))
    # contiguous: the i-th key's home slot lies inside the run the first i keys occupy
    base = slots[0]
    slots = [(base + min((s_ - base) % 256, i)) % 256 for i, s_ in enumerate(slots)]
    out, used = [], set()
    for s_ in slots:
        cand = [k for k in by.get(s_, []) if k not in used]
        k = r.choice(cand)
        used.add(k)
        out.append(k)
    return out


def gen_colliding_modules(seed, mode="loop"):
    """C15/C07/C01: modules whose names share one probe chain of the context's module table (same home slot, neighbouring
    slots, a chain wrapping around the table end), registered in chain order or not, removed from the front, the middle and
    the end: every survivor is still found by name, cannot be registered twice, can be started, and is torn down with the rest"""
    r = random.Random(seed * 181 + 157)
    shape = r.choice(["same", "run", "wrap", "wrap"])
    n = r.randrange(3, 6)
    names = chain_keys(r, r.choice(["worker", "logger", "mod"]), n, shape)
    sc = Sc(mode, "module names on one probe chain (%s: slots %s) seed=%d" % (shape, [map_slot(x) for x in names], seed))
    driven_skeleton(sc, CTX_PERSIST if r.random() < 0.5 else 0)
    order = list(range(1, n + 1))
    for i in order:
        sc.mod(i, names[i - 1], r.choice([0, 0, MOD_ALLOW_REPLACE, MOD_NAME_DUP]), r.choice([0, 4]))
        sc.cb(i, "stop", "*", [])
        sc.cb(i, "evt", "*", [])
    # spare slots registering under names that are (or were) taken
    spare = list(range(n + 1, n + 4))
    for k, sp in enumerate(spare):
        sc.mod(sp, names[k % n], 0, 0)
        sc.cb(sp, "evt", "*", [])
    reg_order = list(order)
    if r.random() < 0.5:
        r.shuffle(reg_order)
    for i in reg_order:
        sc.main.append(("reg", i))
        if r.random() < 0.7:
            sc.main.append(("start", i))
    live = list(reg_order)
    gone = []

    def probe():
        ops = []
        for i in order:
            ops.append(("lookup", DRV, i))
        return ops
    sc.main += probe()
    steps = [[]]
    victims = list(order)
    r.shuffle(victims)
    for v in victims[:r.randrange(1, n)]:
        ops = [("dereg", v)]
        live.remove(v)
        gone.append(v)
        ops += probe()
        for i in live:
            if r.random() < 0.5:
                ops.append((r.choice(["start", "pause", "resume"]), i))
        sp = [x for x in spare if sc.mods[x][0] in (names[g - 1] for g in gone)]
        steps.append(ops)
        x = r.random()
        if x < 0.4 and spare:
            steps.append([("reg", spare[0])] + probe())        # a live name: -EEXIST (or replacement); a freed one: accepted
            spare.pop(0)
        else:
            steps.append([])
    steps += [probe(), []]
    driven_finish(sc, steps, rng=r)
    finalize_main(sc)
    return sc


def gen_colliding_topics(seed, mode="loop"):
    """C09/C02: topics of one module whose entries share a probe chain of its subscription table (also across the table end):
    unsubscribing one leaves the others findable - subscribing them again updates in place (same count), publishing on them
    is delivered, unsubscribing them succeeds exactly once"""
    r = random.Random(seed * 191 + 163)
    shape = r.choice(["same", "run", "wrap", "wrap"])
    n = r.randrange(3, 6)
    tops = chain_keys(r, r.choice(["alerts/zone", "t", "topic"]), n, shape)
    sc = Sc(mode, "topics on one probe chain (%s: slots %s) seed=%d" % (shape, [map_slot(x) for x in tops], seed))
    driven_skeleton(sc)
    M, S2 = 1, 2
    sc.mod(M, "subscriber", 0, 0)
    sc.mod(S2, "sender", 0, 0)
    sc.cb(M, "evt", "*", [])
    sc.cb(S2, "evt", "*", [])
    sc.main += [("reg", M), ("reg", S2), ("start", M), ("start", S2)]
    tix = [sc.topic(t) for t in tops]
    fl = r.choice([0, 0, SRC_DUP])
    order = list(tix)
    if r.random() < 0.5:
        r.shuffle(order)
    for t in order:
        sc.main.append(("sub", M, t, fl, sc.ud()))
    sc.main.append(("srclen", M))
    steps = [[]]
    live = list(tix)
    victims = list(tix)
    r.shuffle(victims)
    for v in victims[:r.randrange(1, n)]:
        live.remove(v)
        ops = [("unsub", M, v), ("srclen", M), ("unsub", M, v)]         # the second one: absent, refused
        for t in live:
            x = r.random()
            if x < 0.5:
                ops += [("sub", M, t, fl, sc.ud()), ("srclen", M)]      # present: updated in place
        steps.append(ops)
        steps.append([("publish", S2, t, sc.pay(), 0) for t in live] + [("publish", S2, v, sc.pay(), 0)])
        steps += [[], []]
    steps.append([("unsub", M, t) for t in live] + [("srclen", M)])
    steps += [[]]
    driven_finish(sc, steps, rng=r)
    finalize_main(sc)
    return sc


PERM_W = dict(lifecycle=10, tell=10, publish=10, broadcast=4, pill=3, sub=10, unsub=4, fd=0, tmr=0, sgn=0, task=0, batch=0, stash=0,
              become=0, ctx=14, retain=0, misc=1, errno=0, sleep=0, dereg=8, tb=0, thresh=0)


def gen_perms(seed, mode="loop"):
    """C15: modules with every subset of the deny / persist / allow-replace flags, equal names in several slots, restricted calls
    issued from every callback kind and nesting depth"""
    r = random.Random(seed * 43 + 23)
    sc = Sc(mode, "perms seed=%d" % seed)
    driven_skeleton(sc)
    nm = r.randrange(3, 8)
    names = ["pa", "pb", "pc", "pd", "cache", "logger"]      # ("cache" and "logger" share a bucket of the context's module table)
    for i in range(1, nm + 1):
        fl = 0
        for f, pr in ((MOD_DENY_CTX, 0.3), (MOD_DENY_PUB, 0.3), (MOD_DENY_SUB, 0.3), (MOD_PERSIST, 0.25), (MOD_ALLOW_REPLACE, 0.35), (MOD_NAME_DUP, 0.15)):
            if r.random() < pr:
                fl |= f
        sc.mod(i, r.choice(names), fl, r.choice([7, 7, 6, 4, 2, 0, 5]))
    p = Prog(r, sc, PERM_W, nm, dict(p_autofree=0.2, p_sys=0.2, task_slots=[], p_oneshot=0.05))
    sys_t = [sc.topic(t) for t in SYS_TOPICS]
    regd = []
    for i in range(1, nm + 1):
        if r.random() < 0.6:
            sc.main.append(("reg", i))
            regd.append(i)
            if r.random() < 0.6:
                sc.main.append(("start", i))
    late = [i for i in range(1, nm + 1) if i not in regd]

    def extra(where, self_slot=None):
        ops = p.op(where, self_slot)
        x = r.random()
        if x < 0.12:
            ops.append(("publish", -1 if self_slot else r.randrange(1, nm + 1), r.choice(sys_t), sc.pay(), 0))
        elif x < 0.2:
            ops.append(("ctx_quit", 200 + r.randrange(50)) if self_slot and (sc.mods[self_slot][1] & MOD_DENY_CTX) else ("ctx_len",))
        elif x < 0.26:
            ops.append(("ctx_tick", 1000000) if self_slot and (sc.mods[self_slot][1] & MOD_DENY_CTX) else ("ctx_stats",))
        elif x < 0.32 and late and where != "idle":
            ops.append(("reg", late.pop()))
        return ops
    for i in range(1, nm + 1):
        hooks = sc.mods[i][2]
        if hooks & 1:
            sc.cb(i, "eval", "*", extra("cb", i) if r.random() < 0.5 else [], ret=1)
        if hooks & 2:
            sc.cb(i, "start", "*", extra("cb", i) if r.random() < 0.7 else [], ret=1)
        if hooks & 4:
            sc.cb(i, "stop", "*", extra("cb", i) if r.random() < 0.7 else [])
        for n in range(r.randrange(1, 5)):
            sc.cb(i, "evt", n, sum((extra("cb", i) for _ in range(r.randrange(0, 3))), []))
        sc.cb(i, "evt", "*", [])
    steps = []
    for k in range(r.randrange(4, 20)):
        ops = []
        for _ in range(r.randrange(0, 4)):
            ops += extra("step")
        if late and r.random() < 0.4:
            ops.append(("reg", late.pop()))
        steps.append(ops)
    # between m_ctx_quit() and the actual end of the loop the context still loops: persistent modules stay protected
    pers = [i for i in range(1, nm + 1) if sc.mods[i][1] & MOD_PERSIST]
    aq = []
    if pers and r.random() < 0.6:
        aq = [("dereg", i) for i in r.sample(pers, r.randrange(1, len(pers) + 1))] + [("ctx_len",)]
    driven_finish(sc, steps, rng=r, quit_code=r.randrange(0, 100), after_quit=aq)
    finalize_main(sc)
    return sc


CTXL_W = dict(lifecycle=14, tell=3, publish=2, broadcast=1, pill=1, sub=3, unsub=1, fd=0, tmr=0, sgn=0, task=0, batch=0, stash=0,
              become=0, ctx=14, retain=0, misc=1, errno=0, sleep=0, dereg=10, tb=0, thresh=0)


def gen_ctxlife(seed, mode="loop"):
    """C07: register / deregister / finalize cycles of the thread's context with every flag combination and 0-6 modules in every
    state mix at teardown; deregistration from the main script, from callbacks and through auto-release; calls made while the
    thread has no context (also before the very first registration of the process)"""
    r = random.Random(seed * 47 + 29)
    sc = Sc(mode, "ctx_lifecycle seed=%d" % seed)
    slot = [1]

    def fresh(name, flags=0, hooks=None, p_teardown_in_stop=0.1):
        s_ = slot[0]
        slot[0] += 1
        sc.mod(s_, name, flags, r.choice([0, 4, 6, 7, 2]) if hooks is None else hooks)
        again = [("ctx_register", r.choice([0, 1, 3]), r.choice([0, CTX_PERSIST]))]     # the thread already has one: refused
        for k in ("eval", "start"):
            sc.cb(s_, k, "*", again if r.random() < 0.15 else [], ret=1)
        sc.cb(s_, "stop", "*", [("ctx_deregister",)] if r.random() < p_teardown_in_stop else ([("ctx_len",)] if r.random() < 0.2 else (again if r.random() < 0.2 else [])))
        sc.cb(s_, "evt", "*", [])
        return s_
    no_ctx_calls = [("ctx_len",), ("ctx_name",), ("ctx_stats",), ("ctx_quit", 3), ("ctx_fd",), ("ctx_tick", 1000000), ("ctx_finalize",),
                    ("ctx_dispatch", 1), ("ctx_loop",), ("ctx_deregister",), ("ctx_userdata",)]
    if r.random() < 0.5:
        sc.main += r.sample(no_ctx_calls, r.randrange(1, 6))        # fresh process: before any registration
        if r.random() < 0.5:
            s_ = fresh("early")
            sc.main.append(("reg", s_))
    zombies = []
    with_loop = r.random() < 0.35
    cycles = r.randrange(1, 4)
    for cy in range(cycles):
        flags = r.choice([0, 0, CTX_PERSIST, CTX_NAME_DUP, CTX_NAME_AUTOFREE, CTX_UD_AUTOFREE, CTX_PERSIST | CTX_NAME_DUP | CTX_UD_AUTOFREE, CTX_NAME_DUP | CTX_NAME_AUTOFREE])
        sc.main.append(("ctx_register", r.choice([0, 1, 3, 2 if r.random() < 0.3 else 0]), flags))
        if r.random() < 0.5:
            sc.main.append(("ctx_register", r.choice([0, 1]), r.choice([0, CTX_PERSIST])))       # second one: -EEXIST
        mods = []
        if r.random() < 0.3:
            # the only module of the (idle) context is replaced by a same-named one: the context stays (unless the stop
            # callback of the replaced module tears it down: the registration is then refused)
            a_ = fresh("rep%d" % cy, MOD_ALLOW_REPLACE | r.choice([0, MOD_NAME_DUP]), r.choice([None, 4, 7]), p_teardown_in_stop=0.35)
            sc.main.append(("reg", a_))
            if r.random() < 0.5:
                sc.main.append(("start", a_))
            b_ = fresh("rep%d" % cy, r.choice([0, MOD_ALLOW_REPLACE]))
            sc.main += [("reg", b_), ("ctx_len",)]
            zombies.append(a_)
            mods.append(b_)
        for _ in range(r.randrange(0, 7)):
            s_ = fresh("c%dm%d" % (cy, len(mods)), r.choice([0, 0, MOD_NAME_DUP, MOD_UD_AUTOFREE, MOD_PERSIST, MOD_DENY_CTX, MOD_DENY_CTX | MOD_DENY_PUB]))
            sc.main.append(("reg", s_))
            mods.append(s_)
            x = r.random()
            if x < 0.45:
                sc.main.append(("start", s_))
            elif x < 0.6:
                sc.main += [("start", s_), ("pause", s_)]
            elif x < 0.7:
                sc.main += [("start", s_), ("stop", s_)]
        if r.random() < (0.6 if len(mods) <= 2 else 0.1):
            # stop callbacks (run by the teardown of the context, or by a plain stop) register another module each
            parents = [m for m in mods if sc.mods[m][2] & 4]
            for k_, par in enumerate(parents[:3]):
                child = fresh("child%d_%d" % (cy, k_))
                sc.cb(par, "stop", "*", [("reg", child), ("ctx_len",)])
                zombies.append(child)
        if r.random() < 0.2:
            sc.main.append(("ctx_finalize",))
            s_ = fresh("late%d" % cy)
            sc.main.append(("reg", s_))
            mods.append(s_)
        for _ in range(r.randrange(0, 5)):
            if mods:
                sc.main.append((r.choice(["start", "stop", "pause", "resume", "srclen"]), r.choice(mods)))
        if with_loop and cy == 0 and mods:
            # one dispatch-driven loop phase: a looping context refuses deregistration; the last module leaving a looping
            # non-persistent context releases it when the loop returns
            sc.main.append(("ctx_dispatch", 1))
            sc.main += [("ctx_deregister",), ("ctx_dispatch", 1)]
            if r.random() < 0.5:
                for m in mods:
                    sc.main.append(("dereg", m))
                sc.main.append(("ctx_dispatch", 1))
                sc.main.append(("ctx_dispatch_until", 6, 0))
            else:
                sc.main += [("ctx_quit", 9), ("ctx_dispatch_until", 6, 0)]
        end = r.random()
        if end < 0.45:
            sc.main.append(("ctx_deregister",))
        elif end < 0.8:
            order = list(mods)
            r.shuffle(order)
            for m in order:
                sc.main.append(("dereg", m))
            sc.main.append(("ctx_deregister",))          # needed for persistent ones, refused (-EPIPE) when auto-released
        else:
            order = list(mods)
            r.shuffle(order)
            for m in order[:len(order) // 2]:
                sc.main.append(("dereg", m))
            sc.main.append(("ctx_deregister",))
        zombies += mods
        # calls on retained handles / context API while the thread has no context
        for _ in range(r.randrange(0, 4)):
            if zombies and r.random() < 0.6:
                sc.main.append((r.choice(["start", "stop", "srclen", "nameof", "dereg"]), r.choice(zombies)))
            else:
                sc.main.append(r.choice(no_ctx_calls))
    sc.main.append(("ctx_deregister",))
    order = list(range(1, slot[0]))
    r.shuffle(order)
    for s_ in order:
        sc.main.append(("obs_drop", s_))
    sc.main.append(("quiesce",))
    sc.meta["max_ufd"] = 1
    finalize_main(sc)
    return sc


def gen_tokenbucket(seed, mode="loop", refused=False):
    """C18: bursts of cheap token-consuming calls on a throttled module from driver steps (the loop keeps refilling), re-
    configuration with user timers registered, exhaustion followed by a long pause and a probe, rate 0 and stop/start"""
    r = random.Random(seed * 53 + 31)
    sc = Sc(mode, "tokenbucket seed=%d" % seed)
    driven_skeleton(sc)
    T, K = 1, 2
    sc.mod(T, "throttled", 0, 0)
    sc.mod(K, "sink", 0, 0)
    sc.cb(T, "evt", "*", [])
    sc.cb(K, "evt", "*", [])
    sc.main += [("reg", T), ("reg", K), ("start", T), ("start", K)]
    tp = [sc.topic(t) for t in ("alpha", "beta", "gamma", "ab1")]
    utmr = r.sample([7000000, 9000000, 11000000, 13000000], r.randrange(0, 4))
    for ns in utmr:
        sc.main.append(("tmr_reg", T, ns, 0, sc.ud(), 0))
    sc.meta["tb_probes"] = [(T, 0)]
    steps = []

    def cheap():
        x = r.random()
        if x < 0.3:
            return ("bsize", T, 0)
        if x < 0.5:
            return ("tell", T, K, sc.pay(), 0)
        if x < 0.65:
            return ("sub", T, r.choice(tp), 0, sc.ud())
        if x < 0.75:
            return ("unsub", T, r.choice(tp))
        if x < 0.85:
            return ("become", T, r.randrange(4))
        if x < 0.92:
            return ("unbecome", T)
        return ("publish", T, r.choice(tp), sc.pay(), 0)

    rate = r.choice([100, 200, 500, 1000])
    burst = r.choice([1, 2, 3, 5, 10, 20])
    if r.random() < 0.15:
        # a very high rate first, then a low one that equals it modulo 2^16 (and modulo 2^8): the new, low rate is the one that counts
        lo_r = r.choice([10, 100, 200])
        steps.append([("tb", T, r.choice([65536, 131072, 65536 * 4]) + lo_r, burst)])
        steps.append([cheap() for _ in range(r.randrange(1, 6))])
        rate = lo_r
    steps.append([("tb", T, rate, burst)])
    r2 = random.Random(seed * 241 + 223)
    for phase in range(r.randrange(2, 7)):
        if refused and r2.random() < 0.5:
            # a re-configuration refused for its arguments (rate above 10^9) changes nothing: the old limit stays in force
            steps.append([("tb", T, r2.choice([1000000001, 2000000000, 4294967295]), r2.choice([1, 5, 1000]))]
                         + [cheap() for _ in range(3 * burst + 22)])
            steps.append([("sleep", r2.choice([0, 500]))])
        x = r.random()
        if x < 0.45:
            steps.append([cheap() for _ in range(r.randrange(1, 3 * burst + 8))])
        elif x < 0.6:
            # exhaust, pause > 25 periods while the loop keeps dispatching, then probe
            steps.append([cheap() for _ in range(2 * burst + 6)])
            per_us = 1000000 // rate
            for _ in range(10):
                steps.append([("sleep", max(300, 3 * per_us))])
            steps.append([("bsize", T, 77)])
            steps.append([cheap() for _ in range(r.randrange(1, 2 * burst + 4))])
        elif x < 0.75:
            rate = r.choice([100, 200, 500, 1000])
            burst = r.choice([1, 2, 3, 5, 10, 20])
            steps.append([("tb", T, rate, burst)])
            if utmr and r.random() < 0.5:
                steps.append([("tmr_dereg", T, r.choice(utmr))])
        elif x < 0.87:
            steps.append([("tb", T, 0, 0)] + [cheap() for _ in range(3 * burst + 22)])
            steps.append([("tb", T, rate, burst)])
        else:
            steps.append([("stop", T), ("start", T)] + [cheap() for _ in range(3 * burst + 22)])
            for ns in utmr:
                steps[-1].append(("tmr_reg", T, ns, 0, sc.ud(), 0))
            steps.append([("tb", T, rate, burst)])
        steps.append([("sleep", r.choice([0, 500, 2000]))])
    steps.append([])
    driven_finish(sc, steps, rng=r)
    finalize_main(sc)
    return sc

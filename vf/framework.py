"""Common machinery: running harness processes in parallel, parsing their protocol and the
sanitizer reports, known-findings matching, evidence and exit codes."""
import fnmatch
import hashlib
import json
import os
import re
import signal
import subprocess
import sys
import time
from concurrent.futures import ThreadPoolExecutor

VERIF = os.path.dirname(os.path.dirname(os.path.abspath(__file__)))
EVIDENCE_DIR = os.path.join(VERIF, "evidence")
REPLAY_DIR = os.path.join(VERIF, "replays")
NPROC = int(os.environ.get("VERIF_JOBS", "16"))

ASAN_ENV = {
    "ASAN_OPTIONS": "abort_on_error=0:detect_leaks=1:detect_stack_use_after_return=1:"
                    "strict_string_checks=1:exitcode=97:allocator_may_return_null=1",
    "UBSAN_OPTIONS": "print_stacktrace=1:halt_on_error=1:exitcode=97",
    "LSAN_OPTIONS": "exitcode=97",
    "TSAN_OPTIONS": "halt_on_error=0:exitcode=96:second_deadlock_stack=1",
}


def seed():
    try:
        return int(os.environ.get("VERIF_SEED", "1"))
    except ValueError:
        return 1


class Violation:
    def __init__(self, key, detail, replay=None):
        self.key = key
        self.detail = detail
        self.replay = replay or {}


class Result:
    def __init__(self, pid, tier):
        self.pid = pid
        self.tier = tier
        self.evaluations = 0
        self.signatures = set()
        self.samples = []
        self.counters = {}
        self.violations = []
        self.inconclusive = []
        self.notes = []
        self.t0 = time.time()

    def count(self, name, v=1):
        self.counters[name] = self.counters.get(name, 0) + v

    def violate(self, key, detail, replay=None):
        self.violations.append(Violation(key, detail, replay))


_LIBFRAME = re.compile(r"#\d+ 0x[0-9a-f]+ in (\S+) (\S+)")
_TSANFRAME = re.compile(r"#\d+ (\S+) (\S+?):\d+")


def sanitizer_key(stderr):
    """stable key for the first sanitizer report in stderr, or None"""
    kind = None
    m = re.search(r"ERROR: (AddressSanitizer|LeakSanitizer): ([^\n]*)", stderr)
    if m:
        k = m.group(2).strip()
        k = k.split(" on ")[0].split(" (")[0].strip()
        if k.startswith("detected memory leaks"):
            k = "memory-leak"
        if k.startswith("attempting"):
            k = k.replace("attempting ", "")
        kind = ("asan:" if m.group(1) == "AddressSanitizer" else "lsan:") + k.replace(" ", "-")
    else:
        m = re.search(r"runtime error: ([^\n]*)", stderr)
        if m:
            k = m.group(1)
            k = re.sub(r"0x[0-9a-f]+", "ADDR", k)
            k = re.sub(r"\d+", "N", k)
            kind = "ubsan:" + k[:60].strip().replace(" ", "-")
        else:
            m = re.search(r"WARNING: ThreadSanitizer: ([^\n(]*)", stderr)
            if m:
                kind = "tsan:" + m.group(1).strip().replace(" ", "-")
    if not kind:
        return None
    frames = []
    start = stderr.find(m.group(0))
    for fm in _LIBFRAME.finditer(stderr, start):
        fn, loc = fm.group(1), fm.group(2)
        if "/Lib/" in loc:
            if fn not in frames:
                frames.append(fn)
        if len(frames) >= 2:
            break
        # stop at end of first stack
        nxt = stderr.find("\n\n", fm.end())
        if 0 <= nxt < fm.end() + 2:
            break
    return kind + ":" + "<".join(frames)


_MEMCHECK = re.compile(r"==\d+== (Invalid (?:read|write|free)[^\n]*|Conditional jump or move depends on uninitialised[^\n]*|"
                       r"Use of uninitialised[^\n]*|Syscall param [^\n]*|Mismatched free[^\n]*|Source and destination overlap[^\n]*|"
                       r"Argument '[^\n]*|Jump to the invalid address[^\n]*|Process terminating[^\n]*)")
_VGFRAME = re.compile(r"==\d+==\s+(?:at|by) 0x[0-9A-F]+: (\S+) \(([^)]*)\)")


def memcheck_key(stderr):
    """stable key for the first valgrind memcheck error in stderr, or None"""
    m = _MEMCHECK.search(stderr)
    if not m:
        return None
    kind = re.sub(r"\d+", "N", m.group(1)).strip().replace(" ", "-")[:50]
    frames = []
    for fm in _VGFRAME.finditer(stderr, m.end()):
        fn, loc = fm.group(1), fm.group(2)
        if re.match(r"(ctx|mod|ps|src|evts|main|map|bst|list|queue|stack|mem|thpool|utils|log|epoll|cmn_linux|poll_\w+)\.c:", loc):
            frames.append(fn)
            break
        if len(frames) > 30:
            break
    return "memcheck:%s:%s" % (kind, "<".join(frames))


def tsan_reports(text):
    """split a TSan log into reports; return list of (key, report_text)"""
    out = []
    for blk in re.split(r"={18}\n", text):
        m = re.search(r"WARNING: ThreadSanitizer: ([^\n(]*)", blk)
        if not m:
            continue
        kind = m.group(1).strip().replace(" ", "-")
        # innermost library frame of each of the first two stacks
        stacks = re.split(r"\n\n", blk)
        fr = []
        for st in stacks:
            if "created by" in st.split("\n", 1)[0] or st.lstrip().startswith("Thread T") or st.lstrip().startswith("Location is"):
                continue
            for fm in _TSANFRAME.finditer(st):
                if "/Lib/" in fm.group(2):
                    fr.append(fm.group(1))
                    break
            if len(fr) >= 2:
                break
        if not fr:
            # report without library frames (harness-only): still reported, keyed by first frame
            fm = _TSANFRAME.search(blk)
            fr = ["nolib:" + (fm.group(1) if fm else "?")]
        out.append(("tsan:%s:%s" % (kind, "<".join(sorted(set(fr)))), blk))
    return out


def run_proc(cmd, timeout, env_extra=None, stdin_data=None, cwd=None):
    env = dict(os.environ)
    env.update(ASAN_ENV)
    if env_extra:
        env.update(env_extra)
    t0 = time.time()
    try:
        p = subprocess.run(cmd, stdout=subprocess.PIPE, stderr=subprocess.PIPE, env=env, timeout=timeout,
                           input=stdin_data, cwd=cwd)
        return p.returncode, p.stdout.decode("utf-8", "replace"), p.stderr.decode("utf-8", "replace"), time.time() - t0
    except subprocess.TimeoutExpired as e:
        out = (e.stdout or b"").decode("utf-8", "replace")
        err = (e.stderr or b"").decode("utf-8", "replace")
        return "timeout", out, err, time.time() - t0


def parse_protocol(stdout):
    fails, stats, sigs, samples, other = [], {}, [], [], []
    for line in stdout.splitlines():
        if line.startswith("FAIL "):
            rest = line[5:]
            key, _, detail = rest.partition(" | ")
            fails.append((key.strip(), detail.strip()))
        elif line.startswith("STAT "):
            p = line.split()
            if len(p) == 3:
                try:
                    stats[p[1]] = stats.get(p[1], 0) + int(p[2])
                except ValueError:
                    pass
        elif line.startswith("SIG "):
            sigs.append(line[4:].strip())
        elif line.startswith("SAMPLE "):
            samples.append(line[7:])
        else:
            other.append(line)
    return fails, stats, sigs, samples, other


def classify_exit(rc, stdout, stderr):
    """returns (key, detail) for an abnormal exit that printed no FAIL line, or None"""
    if rc == 0:
        return None
    sk = sanitizer_key(stderr)
    if sk:
        return sk, stderr[-3000:]
    if rc == 95:
        mk = memcheck_key(stderr)
        if mk:
            return mk, stderr[:3000]
    if isinstance(rc, int) and rc < 0:
        try:
            name = signal.Signals(-rc).name
        except ValueError:
            name = str(-rc)
        m = re.search(r"Assertion `([^']*)' failed", stderr)
        if m:
            return "abort:assert:" + m.group(1)[:60].replace(" ", "_"), stderr[-1500:]
        return "crash:" + name, (stderr[-1500:] or stdout[-500:])
    return None


MEMCHECK = ["valgrind", "-q", "--error-exitcode=95", "--leak-check=no", "--num-callers=24"]


def run_harness_parallel(res, exe, arglists, timeout, key_prefix, env_extra=None, label="case", wrapper=None):
    """run exe once per arglist (in parallel); fold protocol output into res.  wrapper: command prefix (e.g. MEMCHECK)"""
    wrapper = wrapper or []

    def one(args):
        return args, run_proc(wrapper + [exe] + [str(a) for a in args], timeout, env_extra)
    with ThreadPoolExecutor(NPROC) as ex:
        outs = list(ex.map(one, arglists))
    for args, (rc, out, err, dt) in outs:
        fails, stats, sigs, samples, _ = parse_protocol(out)
        for k, v in stats.items():
            res.count(k, v)
        res.signatures.update(sigs)
        for s in samples:
            if len(res.samples) < 5:
                res.samples.append(s)
        replay = {"cmd": wrapper + [exe] + [str(a) for a in args], "stdout_tail": out[-2000:], "stderr_tail": err[-4000:]}
        if rc == "timeout":
            res.inconclusive.append({"what": "watchdog", "args": [str(a) for a in args]})
            continue
        for k, d in fails:
            if k.startswith("HARNESS/"):
                raise RuntimeError("harness failure: %s %s" % (k, d))
            res.violate(k, d, replay)
        if not fails and rc != 0:
            ce = classify_exit(rc, out, err)
            if ce:
                res.violate(key_prefix + "/" + ce[0], ce[1], replay)
            else:
                raise RuntimeError("harness exited %s without verdict: %s\n%s" % (rc, out[-500:], err[-1500:]))
    return outs


def load_findings():
    p = os.path.join(VERIF, "known_findings.json")
    try:
        with open(p) as fh:
            return json.load(fh).get("findings", [])
    except FileNotFoundError:
        return []


def finish(res, rule, assumptions, level="exploration", exhaustive=None, min_distinct=2, extra_cov=None):
    """known-finding matching, evidence, exit code"""
    known = [f for f in load_findings() if f.get("property") == res.pid and f.get("status") == "known"]
    unknown = []
    seen_known = {}
    for v in res.violations:
        hit = None
        for f in known:
            if fnmatch.fnmatchcase(v.key, f["key"]):
                hit = f
                break
        if hit:
            seen_known.setdefault(hit["key"], (hit, v))
        else:
            unknown.append(v)
    for key, (f, v) in seen_known.items():
        print("KNOWN-FINDING: property=%s %s — %s" % (res.pid, key, f.get("what", "")))
    os.makedirs(REPLAY_DIR, exist_ok=True)
    os.makedirs(EVIDENCE_DIR, exist_ok=True)
    printed = set()
    for v in unknown:
        if v.key in printed:
            continue
        printed.add(v.key)
        h = hashlib.sha1((v.key + v.detail).encode()).hexdigest()[:10]
        path = os.path.join(REPLAY_DIR, "%s_%s.json" % (res.pid, h))
        with open(path, "w") as fh:
            json.dump({"property": res.pid, "key": v.key, "detail": v.detail, "replay": v.replay,
                       "seed": seed(), "tier": res.tier}, fh, indent=1)
        print("VIOLATION property=%s replay=%s" % (res.pid, path))
        print("  key=%s" % v.key)
        print("  %s" % v.detail[:600].replace("\n", "\n  "))
    cov = {
        "evaluations": int(res.evaluations),
        "distinct_nontrivial": len(res.signatures),
        "rule": rule,
        "samples": res.samples[:5] if res.samples else [],
        "counters": res.counters,
        "inconclusive": res.inconclusive[:20],
        "inconclusive_count": len(res.inconclusive),
        "known_findings_reproduced": sorted(seen_known.keys()),
        "violation_keys": sorted(printed),
    }
    if exhaustive is not None:
        cov["exhaustive"] = exhaustive
    if extra_cov:
        cov.update(extra_cov)
    ev = {
        "property_id": res.pid, "tier": res.tier, "seed": seed(), "level": level,
        "coverage": cov, "assumptions": assumptions,
        "wall_s": round(time.time() - res.t0, 2), "violations": len(printed),
    }
    harness_problem = None
    if res.evaluations < 1 or len(res.signatures) < min_distinct or not res.samples:
        harness_problem = ("run observed too little to decide anything: evaluations=%d distinct=%d samples=%d"
                           % (res.evaluations, len(res.signatures), len(res.samples)))
    with open(os.path.join(EVIDENCE_DIR, res.pid + ".json"), "w") as fh:
        json.dump(ev, fh, indent=1)
    print("%s %s: evaluations=%d distinct=%d violations=%d known=%d inconclusive=%d wall=%.1fs" % (
        res.pid, res.tier, res.evaluations, len(res.signatures), len(printed), len(seen_known),
        len(res.inconclusive), time.time() - res.t0))
    if printed:
        sys.exit(1)
    if harness_problem:
        print("HARNESS-PROBLEM: " + harness_problem)
        sys.exit(2)
    sys.exit(0)

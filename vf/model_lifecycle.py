"""C01 oracle: lifecycle state machine, callback pairing, evaluation pass, running count.
Judges the *observed* module states (S records) against the documented edges and their causes."""
from vf.model_common import resolve_slots, executed, Facts, HARNESS_SKIP

MOD_ALLOW_REPLACE = 0x100
LEGAL_FROM = {"start": "IS", "pause": "R", "resume": "P", "stop": "RP"}
TARGET = {"start": "R", "pause": "P", "resume": "R", "stop": "S", "dereg": "Z"}


def check(case, stats=None):
    recs = case.recs
    resolve_slots(recs)
    F = Facts(case.sc)
    V = []
    st = {}                 # slot -> letter
    calls = []              # open '>' records
    cbs = []                # open 'B' records
    just_closed = None
    prev = None             # previous record
    eval_ok = set()         # modules whose eval callback just returned true
    start_refused = set()   # modules whose start callback just returned false
    pills = {}              # accepted, unconsumed poison pills per recipient
    unobserved = False
    edges = stats.setdefault("edges", {}) if stats is not None else {}
    illegal_seen = stats.setdefault("illegal_pairs", {}) if stats is not None else {}
    # per open call bookkeeping for the illegal/legal call clause
    info = {}               # call id -> dict(slot, before, touched, nested)
    # evaluation pass bookkeeping (main-script dispatch calls)
    disp = None
    deferred = {}           # slot -> reason : must be non-IDLE after the next pass that sees no registry change
    looping = False
    pending_effect = []
    finished_disp = []

    def bad(key, msg, r):
        V.append(("C01/" + key, "%s (trace line %d: %s)" % (msg, r.i, r.raw[:120])))

    def causes():
        cs = list(calls)
        if just_closed is not None:
            cs.append(just_closed)
        return cs

    def dereg_like(m, cs):
        for c in cs:
            sl = c.fields.get("slots", [])
            if c.op == "dereg" and sl and sl[0] == m:
                return True
            if c.op == "ctx_deregister":
                return True
            if c.op == "reg" and sl and sl[0] != m and F.name.get(sl[0]) == F.name.get(m) and (F.flags.get(m, 0) & MOD_ALLOW_REPLACE):
                return True
        return False

    def in_loop(cs):
        return any(c.op in ("ctx_loop", "ctx_dispatch") for c in cs)

    def call_on(op, m, cs):
        for c in cs:
            sl = c.fields.get("slots", [])
            if c.op == op and sl and sl[0] == m:
                return True
        return False

    def legal(m, a, b, cs):
        if a is None:
            return b == "I" and call_on("reg", m, cs)
        if b == "Z":
            return dereg_like(m, cs)
        if a == "Z":
            return False
        if a in "IS" and b == "R":
            if call_on("start", m, cs):
                return True
            if a == "I" and in_loop(cs) and (not F.has(m, 1) or m in eval_ok):
                return True
            return False
        if a == "R" and b == "P":
            return call_on("pause", m, cs)
        if a == "P" and b == "R":
            return call_on("resume", m, cs)
        if a in "RP" and b == "S":
            if call_on("stop", m, cs) or dereg_like(m, cs):
                return True
            if m in start_refused:
                return True
            # (a PAUSED recipient is reached by its pill when the loop stops: its mailbox is discarded there and the pill in it
            # still takes effect)
            if in_loop(cs) and pills.get(m, 0) > 0:
                pills[m] -= 1
                return True
            return False
        if a == "I" and b == "S":
            return dereg_like(m, cs)      # tolerated: stop() runs on deregistration of an idle module
        return False

    pending_b = None        # a 'B start/stop' record waiting for the S record that shows its transition

    def settle_b(r_s_changes):
        """judge the callback-pairing clause for the B record that precedes (r_s_changes: dict m->(a,b) or {})"""
        nonlocal pending_b
        b = pending_b
        pending_b = None
        if b is None:
            return
        m = b.slot
        ch = r_s_changes.get(m)
        if b.kind == "start":
            if not (ch and ch[0] in ("I", "S") and ch[1] == "R"):
                bad("start-callback-without-entry-into-RUNNING", "on_start of module %d ran but the module did not enter RUNNING from IDLE/STOPPED at that moment (state %s -> %s)" % (m, ch[0] if ch else st.get(m), ch[1] if ch else st.get(m)), b)
        elif b.kind == "stop":
            if ch and ch[0] in ("R", "P") and ch[1] == "S":
                return
            a = ch[0] if ch else st.get(m)
            if dereg_like(m, causes()) and a in ("I", "S", None):
                return      # tolerated: stop callback on deregistration of an idle/stopped module
            bad("stop-callback-without-stop", "on_stop of module %d ran although the module was not being stopped from RUNNING/PAUSED (state before: %s): stop callback must run exactly once per stop" % (m, a), b)
        elif b.kind == "evt":
            now = ch[1] if ch else st.get(m)
            if now is not None and now != "R":
                bad("handler-while-not-running", "event handler of module %d invoked while its observed state is %s" % (m, now), b)

    for r in recs:
        if r.k != "S":
            # the observation that follows a call's end is in: judge accepted calls / finished passes now
            flush_effects(pending_effect, st, bad)
            flush_disp(finished_disp, st, F, deferred, bad, stats)
        if r.k == "S":
            changes = {}
            for m, (letter, _sl) in r.states.items():
                a = st.get(m)
                if a != letter:
                    changes[m] = (a, letter)
            # slots that vanished from the snapshot: observation reference dropped
            cs = causes()
            for m, (a, b) in changes.items():
                edges[(a, b)] = edges.get((a, b), 0) + 1
                if not legal(m, a, b, cs):
                    bad("illegal-transition", "module %d changed state %s -> %s with no documented cause in progress (open calls: %s)" % (m, a, b, [c.op + str(c.fields.get("slots", "")) for c in cs]), r)
                # callback pairing: entries/exits must be observed at their own callback
                pb = pending_b
                if a in ("I", "S") and b == "R" and F.has(m, 2):
                    if not (pb is not None and pb.kind == "start" and pb.slot == m):
                        bad("entered-RUNNING-without-start-callback", "module %d entered RUNNING from %s but its on_start was not invoked for this entry" % (m, a), r)
                if a in ("R", "P") and b == "S" and F.has(m, 4):
                    if not (pb is not None and pb.kind == "stop" and pb.slot == m):
                        bad("stopped-without-stop-callback", "module %d went %s -> STOPPED but its on_stop was not invoked for this stop" % (m, a), r)
                if a in ("R", "P") and b == "Z" and F.has(m, 4):
                    bad("stopped-without-stop-callback", "module %d went %s -> ZOMBIE without its on_stop being invoked" % (m, a), r)
                for c in calls:
                    ci = info.get(c.id)
                    if ci and ci["slot"] == m:
                        ci["touched"] = True
            settle_b(changes)
            for m, (letter, _sl) in r.states.items():
                st[m] = letter
            for m in list(st):
                if m not in r.states:
                    del st[m]
            eval_ok.clear()
            start_refused.clear()
            # running count
            if r.ctx.get("loop") == "1" and r.ctx.get("run", "?") != "?" and not unobserved:
                n = sum(1 for m, (l, _x) in r.states.items() if l == "R")
                if int(r.ctx["run"]) != n:
                    bad("running-count-mismatch", "context reports %s running modules, %d modules are observed RUNNING (%s)" % (r.ctx["run"], n, {m: l for m, (l, _x) in r.states.items()}), r)
            looping = r.ctx.get("loop") == "1"
        elif pending_b is not None:
            settle_b({})
        if r.k == ">":
            calls.append(r)
            just_closed = None
            sl = r.fields.get("slots", [])
            if r.op in TARGET and sl:
                info[r.id] = dict(slot=sl[0], before=st.get(sl[0]), touched=False, nested=False, known=sl[0] in st)
            for c in calls[:-1]:
                if c.id in info:
                    info[c.id]["nested"] = True
            if r.op in ("ctx_dispatch",) and r.depth == 0:
                disp = dict(rec=r, was_looping=looping, evals={}, regchg=False, idle_before={m for m, l in st.items() if l == "I"})
            if disp is not None and r.op in ("reg", "dereg", "ctx_deregister"):
                disp["regchg_try"] = True
        elif r.k == "<":
            c = None
            for j in range(len(calls) - 1, -1, -1):
                if calls[j].id == r.id:
                    c = calls.pop(j)
                    break
            just_closed = c
            if c is None:
                continue
            if c.op == "obs_drop" and executed(r):
                sl = c.fields.get("slots", [])
                if sl and st.get(sl[0]) not in (None, "Z"):
                    unobserved = True
            if c.op == "pill" and executed(r) and r.ret >= 0:
                sl = c.fields.get("slots", [])
                if len(sl) > 1:
                    pills[sl[1]] = pills.get(sl[1], 0) + 1
            if c.op in ("reg", "dereg") and executed(r) and r.ret >= 0 and disp is not None:
                disp["regchg"] = True
            ci = info.pop(c.id, None)
            if ci and executed(r) and ci["known"]:
                m, before = ci["slot"], ci["before"]
                op = c.op
                if op == "dereg":
                    is_legal = before != "Z"
                else:
                    is_legal = before is not None and before in LEGAL_FROM[op]
                if not is_legal:
                    illegal_seen[(before, op)] = illegal_seen.get((before, op), 0) + 1
                    if r.ret >= 0:
                        bad("illegal-call-accepted", "m_mod_%s on module %d in state %s returned %d (must fail)" % (op, m, before, r.ret), r)
                    if ci["touched"]:
                        bad("illegal-call-had-effect", "m_mod_%s on module %d in state %s changed the module or ran its callbacks" % (op, m, before), r)
                # effect of accepted legal calls is judged at the S record that follows (see below)
                if is_legal and r.ret >= 0 and not ci["nested"]:
                    ci["want"] = TARGET[op]
                    ci["rec"] = r
                    ci["op"] = op
                    pending_effect.append(ci)
            if c.op == "ctx_dispatch" and c.depth == 0 and disp is not None and disp["rec"] is c:
                disp["ret"] = r.ret
                disp["looping_after"] = r.fields.get("looping") == "1"
                disp["activity"] = any(x.k in ("B",) or (x.k == "S") for x in recs[c.i + 1:r.i]) or (r.i + 1 < len(recs) and recs[r.i + 1].k == "S" and any(st.get(m_) != l_[0] and st.get(m_) == "R" for m_, l_ in recs[r.i + 1].states.items()))
                finished_disp.append(disp)
                disp = None
        elif r.k == "B":
            cbs.append(r)
            just_closed = None
            if r.kind in ("start", "stop", "evt"):
                pending_b = r
            for c in calls:
                ci = info.get(c.id)
                if ci and ci["slot"] == r.slot and r.kind in ("start", "stop"):
                    ci["touched"] = True
            if disp is not None and r.kind == "eval":
                disp["evals"][r.slot] = None
        elif r.k == "E":
            if cbs:
                cbs.pop()
            just_closed = None
            if r.kind == "eval" and r.ret:
                eval_ok.add(r.slot)
            if r.kind == "start" and not r.ret:
                start_refused.add(r.slot)
            if disp is not None and r.kind == "eval":
                disp["evals"][r.slot] = r.ret
    flush_effects(pending_effect, st, bad)
    flush_disp(finished_disp, st, F, deferred, bad, stats)
    return V


def flush_effects(pend, st, bad):
    while pend:
        ci = pend.pop()
        m = ci["slot"]
        now = st.get(m)
        want = ci["want"]
        if ci["op"] == "start" and now == "S":
            continue            # refused by its start callback
        if now is None:
            continue
        if now != want and not (ci["op"] == "dereg" and now is None):
            bad("accepted-call-without-effect", "m_mod_%s on module %d (state %s) returned %d but the module is observed %s afterwards (expected %s)" % (ci["op"], m, ci["before"], ci["rec"].ret, now, want), ci["rec"])


def flush_disp(fin, st, F, deferred, bad, stats):
    while fin:
        d = fin.pop(0)
        r = d["rec"]
        # a dispatch call ends with an evaluation pass when it started the loop or processed a batch of events; "processed a
        # batch" is judged from the return value OR from observed activity inside the call (a callback ran, a module changed
        # state - eg. a lone poison pill took effect), so that a miscounted batch cannot hide a skipped pass
        bearing = (not d["was_looping"] and d.get("looping_after")) or ((d.get("ret", 0) > 0 or d.get("activity")) and d.get("looping_after") and d.get("ret", 0) >= 0)
        if not bearing:
            continue
        if stats is not None:
            stats["passes"] = stats.get("passes", 0) + 1
        regchg = d["regchg"]
        idle_now = {m for m, l in st.items() if l == "I"}
        # modules deferred by an earlier pass
        for m in list(deferred):
            if m not in idle_now:
                deferred.pop(m)
            elif not regchg:
                why = deferred.pop(m)
                ev = d["evals"].get(m, "absent")
                if not F.has(m, 1) or ev == "absent" or ev:
                    bad("idle-module-not-started", "module %d is still IDLE after a second evaluation pass (%s; eval in this pass: %s)" % (m, why, ev), r.end or r)
        for m in idle_now:
            if m in deferred:
                continue
            if m not in d["idle_before"]:
                # registered during this dispatch call
                deferred[m] = "registered during a pass"
                continue
            ev = d["evals"].get(m, "absent")
            if F.has(m, 1) and ev is not None and ev != "absent" and not ev:
                if stats is not None:
                    stats["false_evals"] = stats.get("false_evals", 0) + 1
                continue        # evaluated, said no
            if regchg:
                deferred[m] = "registry changed during the pass"
                continue
            if not F.has(m, 1):
                bad("idle-module-not-started", "module %d has no evaluation callback and was IDLE during an evaluation pass in which the registry did not change, yet it is still IDLE (evals of this pass: %s)" % (m, d["evals"]), r.end or r)
            elif ev == "absent":
                bad("idle-module-not-evaluated", "IDLE module %d was not evaluated during an evaluation pass in which the registry did not change (evaluated: %s) - other modules' evaluation results must not matter" % (m, d["evals"]), r.end or r)
            else:
                bad("idle-module-not-started", "module %d evaluated true but is still IDLE after the pass" % m, r.end or r)

"""C20 oracle: descriptor ledger verdicts (every close() issued by library code, every descriptor the library opened,
/proc/self/fd at quiescence)."""
from vf.model_common import resolve_slots, executed

SRC_FD_AUTOCLOSE = 1 << 16
SRC_DUP = 32


def check_c20(case, stats=None):
    recs = case.recs
    resolve_slots(recs)
    V = []

    def bad(key, msg, r=None):
        V.append(("C20/" + key, msg + ((" (trace line %d: %s)" % (r.i, r.raw[:110])) if r is not None else "")))

    calls = {}
    st = {}
    active = {}          # (module, ufd) -> dict(auto, since) : accepted, still registered descriptor sources (non-DUP)
    owed = {}            # ufd -> number of library closes owed (auto-close registrations released or to be released)
    auto_regs = {}       # ufd -> list of (module, index) accepted auto-close registrations
    lib_closed = {}      # ufd -> count of library closes of the user's descriptor
    lib_open = {}        # fd -> (kind, index) opened by the library and not closed yet
    user_open = set()    # ufd indexes currently open (harness view)
    retained = 0
    pending_early = []
    final_q = None

    def settle():
        while pending_early:
            k, rr = pending_early.pop()
            if k in active and st.get(k[0]) in ("S", "Z", None):
                active.pop(k)           # sources registered on a stopped module go when it is deregistered
                continue
            if k in active:
                bad("user-descriptor-closed-early", "library closed user descriptor #%d while the auto-close source of module %d is still registered and its module active" % (k[1], k[0]), rr)
    ctx_gone = False
    for r in recs:
        if r.k == "O":
            lib_open[r.fields["fd"]] = (r.kind, r.i)
            if stats is not None:
                stats["lib_open_" + r.kind] = stats.get("lib_open_" + r.kind, 0) + 1
        elif r.k == "X" and r.kind == "close":
            fd, cls, uidx = r.fields["fd"], r.fields["cls"], r.fields["uidx"]
            if stats is not None:
                stats["lib_close_" + cls] = stats.get("lib_close_" + cls, 0) + 1
            if fd < 0:
                continue
            if cls == "lib":
                lib_open.pop(fd, None)
            elif cls == "notopen":
                bad("close-of-closed-descriptor", "library called close(%d) on a descriptor that is not open (double close)" % fd, r)
            elif cls == "unknown":
                bad("close-of-foreign-descriptor", "library called close(%d) on a descriptor it neither opened nor was given" % fd, r)
            elif cls == "user":
                lib_closed[uidx] = lib_closed.get(uidx, 0) + 1
                regs = [k for k, e in active.items() if k[1] == uidx and e["auto"]]
                released = owed.get(uidx, 0)
                if released > 0:
                    owed[uidx] = released - 1
                elif regs:
                    # the release of the source (stop / deregistration in progress) is only observed at the next
                    # observation point: judge then
                    active[regs[0]]["closed"] = True
                    pending_early.append((regs[0], r))
                else:
                    bad("user-descriptor-closed", "library closed user descriptor #%d (fd %d) which is not registered with the auto-close flag" % (uidx, fd), r)
                if lib_closed[uidx] > 1:
                    bad("user-descriptor-closed-twice", "library closed user descriptor #%d %d times" % (uidx, lib_closed[uidx]), r)
        elif r.k == "S":
            for m, (l, _n) in r.states.items():
                if st.get(m) != l and l in ("S", "Z"):
                    for k in [k for k in active if k[0] == m]:
                        e = active.pop(k)
                        if e["auto"] and not e.get("closed"):
                            owed[k[1]] = owed.get(k[1], 0) + 1
                st[m] = l
            for m in list(st):
                if m not in r.states:
                    st.pop(m, None)
            ctx_gone = r.ctx.get("ctx") == "0"
            settle()
        elif r.k == ">":
            calls[r.id] = r
        elif r.k == "<":
            c = calls.pop(r.id, None)
            if c is None or not executed(r):
                continue
            sl = c.fields.get("slots", [])
            if c.op != "fd_dereg" and pending_early and (r.i + 1 >= len(recs) or recs[r.i + 1].k != "S"):
                settle()
            if c.op == "fd_open" and r.ret >= 0:
                user_open.add(c.args[0])
                lib_closed.pop(c.args[0], None)
            elif c.op == "fd_close":
                user_open.discard(c.args[0])
            elif c.op == "fd_reg" and r.ret >= 0 and sl and c.args[1] >= 0:
                fl = c.args[2]
                # (with M_SRC_DUP the library polls - and owns - a private duplicate; the auto-close flag still is about the
                # descriptor the user handed in.  a one-shot duplicate reports the duplicate's number in its event: identified by its user-data token)
                if True:
                    active[(sl[0], c.args[1])] = dict(auto=bool(fl & SRC_FD_AUTOCLOSE), oneshot=bool(fl & 16), since=r.i, dup=bool(fl & SRC_DUP), ud=(c.args[3] if len(c.args) > 3 else 0))
                    if fl & SRC_FD_AUTOCLOSE:
                        auto_regs.setdefault(c.args[1], []).append((sl[0], r.i))
            elif c.op == "fd_dereg" and r.ret >= 0 and sl:
                e = active.pop((sl[0], c.args[1]), None)
                if e and e["auto"] and not e.get("closed"):
                    owed[c.args[1]] = owed.get(c.args[1], 0) + 1
                if r.i + 1 >= len(recs) or recs[r.i + 1].k != "S":
                    settle()
        elif r.k == "V" and r.kind == "fd":
            # a one-shot descriptor source is released once it fired
            k = (r.slot, int(r.fields.get("idx", -9)))
            if k[1] < 0:
                udv = int(r.fields.get("ud", "0"))
                cand = [kk for kk, ee in active.items() if kk[0] == r.slot and ee.get("dup") and ee.get("oneshot") and ee.get("ud") == udv and udv != 0]
                if cand:
                    k = cand[0]
            e = active.get(k)
            if e and e.get("oneshot"):
                active.pop(k)
                if e["auto"] and not e.get("closed"):
                    owed[k[1]] = owed.get(k[1], 0) + 1
        elif r.k == "Q" and r.kind == "q":
            final_q = r
    if final_q is not None and ctx_gone:
        leaked = final_q.fields.get("fds", [])
        if leaked:
            bad("lib-descriptor-leaked", "descriptors opened by the library are still open after the context is gone and every reference dropped: %s" % leaked, final_q)
        for u, n in owed.items():
            if n > 0:
                bad("autoclose-descriptor-not-closed", "user descriptor #%d was registered with the auto-close flag and its source is gone, but the library never closed it" % u, final_q)
        if stats is not None:
            stats["quiescent_points_checked"] = stats.get("quiescent_points_checked", 0) + 1
    return V

"""C09 oracle: per (module, kind) the registered sources behave as a set keyed by the identifying value;
m_mod_src_len() equals the sum of the set sizes after every call."""
from vf.model_common import resolve_slots, executed, Facts

SRC_LOW, SRC_NORM, SRC_HIGH, SRC_AUTOFREE, SRC_ONESHOT, SRC_DUP = 1, 2, 4, 8, 16, 32
EEXIST = -17
REG = {"fd_reg": "fd", "tmr_reg": "tmr", "sgn_reg": "sgn", "path_reg": "path", "pid_reg": "pid", "task_reg": "task", "thresh_reg": "thresh", "sub": "sub"}
DEREG = {"fd_dereg": "fd", "tmr_dereg": "tmr", "sgn_dereg": "sgn", "path_dereg": "path", "pid_dereg": "pid", "task_dereg": "task", "thresh_dereg": "thresh", "unsub": "sub"}


def key_of(kind, args):
    if kind == "thresh":
        return (args[1], args[2])
    if kind == "pid":
        return (args[1], args[4] if len(args) > 4 else 0)
    return args[1]


def ud_of(kind, args):
    if kind == "thresh":
        return args[4] if len(args) > 4 else 0
    return args[3] if len(args) > 3 else 0


def flags_of(kind, args):
    if kind == "thresh":
        return args[3] if len(args) > 3 else 0
    return args[2] if len(args) > 2 else 0


def valid_params(kind, args, fl):
    prio = fl & 7
    if prio not in (0, 1, 2, 4):
        return False
    if kind == "fd":
        return prio in (0, 4) and args[1] >= 0
    if kind == "tmr":
        return args[1] > 0
    if kind == "sgn":
        return args[1] > 0
    if kind == "thresh":
        return args[1] > 0 or args[2] > 0
    if kind == "path":
        return len(args) > 4 and args[4] > 0
    return True


def check_c09(case, stats=None):
    recs = case.recs
    resolve_slots(recs)
    V = []

    def bad(key, msg, r=None):
        V.append(("C09/" + key, msg + ((" (trace line %d: %s)" % (r.i, r.raw[:110])) if r is not None else "")))

    sets = {}           # module -> {(kind, key): dict(flags, ud, dup)}
    st = {}
    srclen = {}         # observed
    calls = {}
    pending = []        # (module, call rec) to compare the observed count after the call's observation
    shared_fd = case.sc.meta.get("shared_fds", set())
    dupctr = 0
    unstash = 0

    def total(m):
        return len(sets.get(m, {}))

    def flush():
        while pending:
            m, c, what = pending.pop()
            if m in srclen and st.get(m) not in (None, "Z") and srclen[m] >= 0:
                if srclen[m] != total(m):
                    bad("count-mismatch", "after %s on module %d: m_mod_src_len() reports %d sources, the keyed-set model holds %d %s" % (what, m, srclen[m], total(m), sorted((k[0], str(k[1])) for k in sets.get(m, {}))[:8]), c)
                    # resynchronise on the observation to avoid cascades
                    sets[m] = dict(list(sets.get(m, {}).items())[:max(srclen[m], 0)])

    for r in recs:
        if r.k != "S":
            flush()
        if r.k == "S":
            for m, (l, n) in r.states.items():
                if st.get(m) != l and l in ("S", "Z"):
                    sets[m] = {}
                st[m] = l
                srclen[m] = n
            for m in list(st):
                if m not in r.states:
                    st.pop(m, None)
                    srclen.pop(m, None)
        elif r.k == ">":
            calls[r.id] = r
            if r.op == "unstash":
                unstash += 1
        elif r.k == "<":
            c = calls.pop(r.id, None)
            if c is None:
                continue
            if c.op == "unstash":
                unstash -= 1
            if not executed(r):
                continue
            sl = c.fields.get("slots", [])
            if not sl or sl[0] not in st or st.get(sl[0]) == "Z":
                continue
            m = sl[0]
            if c.op in REG:
                kind = REG[c.op]
                key = key_of(kind, c.args)
                fl = flags_of(kind, c.args)
                S_ = sets.setdefault(m, {})
                if stats is not None:
                    stats["reg_" + kind] = stats.get("reg_" + kind, 0) + 1
                present = (kind, key) in S_         # (a M_SRC_DUP descriptor is keyed by the descriptor it was registered with, like any other)
                if not valid_params(kind, c.args, fl):
                    if r.ret >= 0:
                        bad("bad-parameters-accepted", "%s with invalid parameters %s returned %d" % (c.op, c.args, r.ret), r)
                    pending.append((m, r, "rejected " + c.op))
                    continue
                if present and kind == "sub":
                    if r.ret != 0:
                        bad("resubscription-refused", "repeating the subscription to topic %s on module %d returned %d (must be updated in place)" % (key, m, r.ret), r)
                    else:
                        S_[(kind, key)] = dict(flags=fl, ud=ud_of(kind, c.args))
                elif present:
                    if stats is not None:
                        stats["dup_key_" + kind] = stats.get("dup_key_" + kind, 0) + 1
                    if r.ret != EEXIST:
                        bad("duplicate-key-accepted" if r.ret >= 0 else "duplicate-key-wrong-error", "%s of key %s on module %d, where that key is already registered, returned %d (expected -EEXIST)" % (c.op, key, m, r.ret), r)
                        if r.ret >= 0:
                            dupctr += 1
                            S_[(kind, ("dupkey", key, dupctr))] = dict(flags=fl)
                else:
                    unpollable = (kind == "fd" and c.args[1] in case.sc.meta.get("unpollable_fds", ())) or (kind == "tmr" and len(c.args) > 4 and c.args[4] == 9) or (kind == "pid" and key[1] > 100000)
                    if unpollable and st.get(m) == "R":
                        # cannot be polled: on a running module the registration is rejected and leaves no trace
                        if stats is not None:
                            stats["unpollable_on_running"] = stats.get("unpollable_on_running", 0) + 1
                        if r.ret >= 0:
                            bad("unpollable-source-accepted", "%s of a source that cannot be polled (key %s) on RUNNING module %d returned %d" % (c.op, key, m, r.ret), r)
                            S_[(kind, key)] = dict(flags=fl, ud=ud_of(kind, c.args))
                        pending.append((m, r, "rejected " + c.op))
                        continue
                    lenient = unpollable or (kind == "fd" and c.args[1] in shared_fd) or (kind == "pid") or (kind == "path") or (kind == "task" and st.get(m) == "R")
                    if r.ret == 0:
                        S_[(kind, key)] = dict(flags=fl, ud=ud_of(kind, c.args))
                    elif not lenient:
                        bad("new-key-refused", "%s of new key %s with valid parameters on module %d (state %s) returned %d" % (c.op, key, m, st.get(m), r.ret), r)
                pending.append((m, r, c.op))
            elif c.op in DEREG:
                kind = DEREG[c.op]
                key = key_of(kind, c.args)
                S_ = sets.setdefault(m, {})
                if stats is not None:
                    stats["dereg_" + kind] = stats.get("dereg_" + kind, 0) + 1
                if kind == "task":
                    if r.ret >= 0:
                        bad("task-deregistered", "m_mod_src_deregister_task returned %d (tasks cannot be deregistered)" % r.ret, r)
                    pending.append((m, r, c.op))
                    continue
                if kind == "thresh" and not (c.args[1] > 0 or c.args[2] > 0):
                    pending.append((m, r, c.op))
                    continue
                if (kind, key) in S_:
                    if r.ret != 0:
                        bad("present-key-not-removed", "%s of registered key %s on module %d returned %d" % (c.op, key, m, r.ret), r)
                    else:
                        del S_[(kind, key)]
                else:
                    dups = [k for k in S_ if k[0] == kind and isinstance(k[1], tuple) and k[1][0] in ("dup", "dupkey") and k[1][1] == key]
                    if r.ret >= 0:
                        if dups:
                            del S_[dups[0]]
                        else:
                            bad("absent-key-removed", "%s of key %s which module %d does not hold returned %d" % (c.op, key, m, r.ret), r)
                pending.append((m, r, c.op))
            elif c.op == "srclen" and len(c.args) > 1 and 0 <= c.args[1] <= 7 and r.ret >= 0:
                # count of one kind of source only
                kname = ("sub", "fd", "tmr", "sgn", "path", "pid", "task", "thresh")[c.args[1]]
                S_ = sets.get(m, {})
                n_model = sum(1 for kk in S_ if kk[0] == kname)
                if stats is not None:
                    stats["per_kind_counts_judged"] = stats.get("per_kind_counts_judged", 0) + 1
                if r.ret != n_model and srclen.get(m) == len(S_):      # (only when the total agrees: the model is in step)
                    bad("count-mismatch", "m_mod_src_len(%s only) on module %d reports %d, the keyed-set model holds %d of that kind %s" % (kname, m, r.ret, n_model, sorted(str(kk[1]) for kk in S_ if kk[0] == kname)), r)
        elif r.k == "V" and not unstash:
            # one-shot sources are gone once they fired
            m = r.slot
            S_ = sets.get(m, {})
            if r.kind == "ps":
                # a one-shot subscription is gone once it fired: the user-data token of the event identifies the subscription
                # it came through (a subscription that replaced it meanwhile - same topic, other flags - stays)
                if r.fields.get("sys") == "0":
                    try:
                        ud = int(r.fields.get("ud", "0"))
                    except ValueError:
                        ud = 0
                    if ud:
                        for kk, e in list(S_.items()):
                            if kk[0] == "sub" and (e.get("flags", 0) & SRC_ONESHOT) and e.get("ud") == ud:
                                del S_[kk]
                                break
                continue
            from vf.model_events import _evt_key
            k = _evt_key(r)
            kind = r.kind
            if kind == "fd" and k is not None and k < 0:
                # event of a M_SRC_DUP source: it reports the library's private duplicate; the user-data token identifies it
                ud = int(r.fields.get("ud", "0"))
                for kk, e in list(S_.items()):
                    if kk[0] == "fd" and (e.get("flags", 0) & SRC_DUP) and (e["flags"] & SRC_ONESHOT) and e.get("ud") == ud:
                        del S_[kk]
                        break
                continue
            if kind == "thresh":
                ud = int(r.fields.get("ud", "0"))
                for kk, e in list(S_.items()):
                    if kk[0] == "thresh" and e.get("ud") == ud:
                        del S_[kk]
                        break
                continue
            e = S_.get((kind, k))
            if e is not None and (e["flags"] & SRC_ONESHOT or kind in ("task", "thresh")):
                del S_[(kind, k)]
    flush()
    return V

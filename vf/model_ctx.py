"""C07 oracle: one context per thread, teardown deregisters every module, auto-release, finalize gate."""
from vf.model_common import resolve_slots, executed, Facts

CTX_NAME_DUP, CTX_NAME_AUTOFREE, CTX_PERSIST, CTX_UD_AUTOFREE = 1, 2, 4, 8
MOD_DENY_CTX = 0x10000
EEXIST = -17
NEEDS_CTX = ("ctx_len", "ctx_stats", "ctx_fd", "ctx_quit", "ctx_loop", "ctx_dispatch", "ctx_tick", "ctx_finalize", "ctx_deregister", "ctx_logger")
MOD_CALLS = ("start", "pause", "resume", "stop", "dereg", "tell", "publish", "pill", "sub", "unsub", "fd_reg", "tmr_reg", "sgn_reg",
             "bsize", "btimeout", "tb", "become", "unbecome", "unstash", "srclen", "mstats")


def check_c07(case, stats=None):
    recs = case.recs
    resolve_slots(recs)
    F = Facts(case.sc)
    V = []

    def bad(key, msg, r=None):
        V.append(("C07/" + key, msg + ((" (trace line %d: %s)" % (r.i, r.raw[:110])) if r is not None else "")))

    def cnt(k):
        if stats is not None:
            stats[k] = stats.get(k, 0) + 1

    exists = False
    persistent = False
    finalized = False
    st = {}
    obs = {}            # last observed ctx fields
    calls = []
    cbs = []
    pend = []
    pend_dereg = []

    def deny_now():
        return bool(cbs) and bool(F.flags.get(cbs[-1].slot, 0) & MOD_DENY_CTX)

    def judge_pending():
        nonlocal exists, finalized
        while pend:
            c = pend.pop(0)
            r = c.end
            kind = c.fields.get("_judge")
            if kind == "deregistered":
                leaving = set(x.fields.get("slots", [None])[0] for x in calls if x.op == "dereg")
                # a module whose stop callback is still open is on its way out (deregistration or replacement in progress)
                leaving |= set(b.slot for b in cbs if b.kind == "stop")
                alive = [m for m, l in st.items() if l != "Z" and m not in leaving]
                if alive:
                    bad("modules-survive-ctx-deregister", "m_ctx_deregister returned 0 but modules %s are still registered (states %s)" % (alive, {m: st[m] for m in alive}), r)
                if obs.get("ctx") == "1" and not c.fields.get("_deny_after"):
                    bad("ctx-survives-deregister", "m_ctx_deregister returned 0 but the thread still has a context", r)
            elif kind == "must_exist":
                if obs.get("ctx") == "0" and not c.fields.get("_deny_after"):
                    bad("ctx-vanished", "%s: the context must still exist (%s) but the thread has none" % (c.op, c.fields.get("_why")), r)
            elif kind == "auto_released":
                if obs.get("ctx") == "1" and not c.fields.get("_deny_after"):
                    bad("ctx-not-auto-released", "the last module of a non-persistent context was deregistered (%s) but the context still exists" % c.fields.get("_why"), r)

    for r in recs:
        if r.k != "S" and pend:
            judge_pending()
        if r.k == "S":
            for m, (l, _n) in r.states.items():
                st[m] = l
            for m in list(st):
                if m not in r.states:
                    st.pop(m)
            if not deny_now():
                obs = dict(r.ctx)
                # model vs observation
                if obs.get("ctx") in ("0", "1"):
                    # a module whose deregistration is in progress (open call on it) already left the context
                    going = set(x.fields.get("slots", [None])[0] for x in calls if x.op == "dereg")
                    live = [m for m, l in st.items() if l != "Z" and m not in going]
                    if exists and obs["ctx"] == "0":
                        tearing = any(x.op == "ctx_deregister" for x in calls) or any(c_.fields.get("_judge") == "deregistered" for c_ in pend)
                        if (not persistent and not live and obs.get("loop") != "1") or tearing:
                            exists = False          # legitimate (auto-)release
                            cnt("ctx_released_observed")
                        else:
                            bad("ctx-vanished", "the thread lost its context (persistent=%s, live modules %s) although nothing released it" % (persistent, live), r)
                            exists = False
                    elif not exists and obs["ctx"] == "1" and not pend:
                        bad("ctx-appeared", "the thread has a context although none is registered", r)
                        exists = True
        elif r.k == "B":
            cbs.append(r)
        elif r.k == "E":
            if cbs:
                cbs.pop()
        elif r.k == ">":
            calls.append(r)
            r.fields["_exists"] = exists
            r.fields["_loop"] = obs.get("loop") == "1"
            r.fields["_deny"] = deny_now()
            r.fields["_st"] = dict(st)
            r.fields["_nlive"] = sum(1 for l in st.values() if l != "Z")
        elif r.k == "<":
            c = None
            for j in range(len(calls) - 1, -1, -1):
                if calls[j].id == r.id:
                    c = calls.pop(j)
                    break
            if c is None or not executed(r):
                continue
            c.fields["_deny_after"] = deny_now()
            had = c.fields["_exists"]
            deny = c.fields["_deny"]
            sl = c.fields.get("slots", [])
            if c.op == "ctx_register":
                cnt("ctx_register_calls")
                name_ok = (c.args[0] & 3) != 2
                if had or exists:
                    cnt("second_register")
                    if deny and r.ret < 0:
                        cnt("second_register_from_deny_ctx_callback")       # refused: which error is not specified
                    elif r.ret != EEXIST and not (not name_ok and r.ret < 0):
                        bad("second-register-accepted" if r.ret >= 0 else "second-register-wrong-error", "m_ctx_register on a thread that already has a context returned %d (expected -EEXIST)" % r.ret, r)
                elif not name_ok:
                    if r.ret >= 0:
                        bad("empty-name-accepted", "m_ctx_register with an empty name returned %d" % r.ret, r)
                else:
                    if r.ret != 0:
                        bad("register-refused", "m_ctx_register on a thread without context returned %d" % r.ret, r)
                    else:
                        exists = True
                        persistent = bool(c.args[1] & CTX_PERSIST)
                        finalized = False
                        cnt("ctx_created")
            elif c.op == "ctx_deregister":
                cnt("ctx_deregister_calls")
                if not had:
                    if r.ret >= 0:
                        bad("call-without-context-accepted", "m_ctx_deregister without context returned %d" % r.ret, r)
                elif c.fields["_loop"]:
                    cnt("deregister_while_looping")
                    if r.ret >= 0:
                        bad("looping-ctx-deregistered", "m_ctx_deregister on a looping context returned %d" % r.ret, r)
                    c.fields["_judge"], c.fields["_why"] = "must_exist", "deregistration of a looping context is refused"
                    pend.append(c)
                elif deny:
                    pass
                elif not exists:
                    pass        # released meanwhile by a nested call
                else:
                    if r.ret != 0:
                        # a context being torn down (we are inside a stop callback of that teardown) refuses
                        if not any(x.op == "ctx_deregister" for x in calls):
                            bad("idle-ctx-deregister-refused", "m_ctx_deregister on an idle context returned %d" % r.ret, r)
                    else:
                        exists = False
                        for oc in calls:
                            oc.fields["_nested_teardown"] = True
                        cnt("ctx_deregistered_with_%d_modules" % min(c.fields["_nlive"], 6))
                        c.fields["_judge"] = "deregistered"
                        pend.append(c)
            elif c.op in NEEDS_CTX and not had and not exists:
                cnt("ctx_calls_without_context")
                if r.ret >= 0 and not (c.op == "ctx_dispatch" and False):
                    bad("call-without-context-accepted", "%s on a thread without context returned %d" % (c.op, r.ret), r)
            elif c.op in ("ctx_name", "ctx_userdata") and not had and not exists:
                if r.ret != 0 and c.op == "ctx_name":
                    bad("call-without-context-accepted", "m_ctx_name on a thread without context returned a name", r)
            elif c.op in MOD_CALLS and not had and not exists and sl and sl[0] in c.fields["_st"]:
                cnt("module_calls_without_context")
                if r.ret >= 0:
                    bad("call-without-context-accepted", "%s on module %d from a thread without context returned %d" % (c.op, sl[0], r.ret), r)
                c.fields["_judge"] = None
            elif c.op == "ctx_finalize" and had and r.ret == 0:
                finalized = True
                cnt("finalize")
            elif c.op == "reg" and r.ret is not None:
                if had and not c.fields.get("_nested_teardown") and not deny:
                    # registering (also over a replaceable module) never releases the context
                    cnt("registrations_judged")
                    c.fields["_judge"], c.fields["_why"] = "must_exist", "m_mod_register does not release the context"
                    pend.append(c)
                if r.ret == 0 and c.fields.get("_nested_teardown"):
                    bad("registered-into-released-context", "m_mod_register returned 0 although the context was deregistered (by a callback) during the call", r)
                if not had and not exists:
                    cnt("register_without_context")
                    if r.ret >= 0:
                        bad("call-without-context-accepted", "m_mod_register without context returned %d" % r.ret, r)
                elif finalized and exists:
                    cnt("register_after_finalize")
                    if r.ret >= 0:
                        bad("register-after-finalize", "m_mod_register on a finalised context returned %d" % r.ret, r)
            # auto release / survival after the last module is gone
            if c.op == "dereg" and r.ret == 0 and had and exists:
                live_after = None       # judged from the observation that follows
                c.fields["_post_dereg"] = True
                pend_dereg.append(c)
            if c.op in ("ctx_loop",) and r.ret is not None and had:
                c.fields["_post_loop"] = True
                pend_dereg.append(c)
        # post conditions that need the observation following the call
        if r.k != "<" and r.k != "S" and pend_dereg:
            for c in pend_dereg:
                live = [m for m, l in st.items() if l != "Z"]
                nm = obs.get("nmods")
                if c.fields.get("_deny_after") or any(x.op == "ctx_deregister" for x in calls):
                    continue
                try:
                    if int(nm) > 0:
                        live = live or ["<%s unobserved>" % nm]      # modules the harness holds no observation reference on
                except (TypeError, ValueError):
                    pass
                if not live and exists and obs.get("loop") == "0":
                    if persistent:
                        if obs.get("ctx") == "0":
                            bad("persistent-ctx-vanished", "a persistent context was released when its last module went away", c.end)
                            exists = False
                        else:
                            cnt("persistent_survived_empty")
                    else:
                        if obs.get("ctx") == "1":
                            bad("ctx-not-auto-released", "non-persistent idle context with no module left still exists after %s" % c.op, c.end)
                        else:
                            cnt("auto_released")
                        exists = False
                elif not live and exists and obs.get("loop") == "1" and obs.get("ctx") == "0":
                    bad("looping-ctx-released", "the context vanished while looping", c.end)
            pend_dereg.clear()
    return V

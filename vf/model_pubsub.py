"""C02 / C08 / C19 oracles over messaging traces (shared walk: subscriptions, sends, deliveries, loop runs)."""
import re
from vf.model_common import resolve_slots, executed, Facts

SRC_LOW, SRC_NORM, SRC_HIGH, SRC_AUTOFREE, SRC_ONESHOT, SRC_DUP = 1, 2, 4, 8, 16, 32
PS_AUTOFREE = 1
MAILBOX_SAFE = 8000          # fewer pending than this: delivery is required (statement: at least 8192)
SYS_PREFIX = "LIBMODULE_"
MOD_DENY_PUB, MOD_DENY_SUB = 0x20000, 0x40000


def topic_matches(pattern, topic):
    """restricted vocabulary (see DESIGN.md C02): patterns on which POSIX BRE/ERE and python agree"""
    if pattern == topic:
        return True
    try:
        return re.search(pattern, topic) is not None
    except re.error:
        return False


class Send:
    __slots__ = ("pid", "kind", "sender", "target", "topic", "flags", "begin", "end", "ret", "eligible", "loop_at_send",
                 "delivered", "pending_at_send", "low_or_oneshot", "freed_at", "free_count", "state_at_send", "sub_flags")


class World:
    """everything the three oracles need, computed in one pass"""

    def __init__(self, case):
        recs = case.recs
        resolve_slots(recs)
        self.F = Facts(case.sc)
        self.recs = recs
        self.sends = {}              # payload id -> Send   (user messages)
        self.pills = []              # Send-like records for poison pills
        self.deliveries = []         # (rec V, recipient, Send or None, in_unstash, handler B rec)
        self.state_hist = {}         # slot -> list of (rec index, letter)
        self.loop_runs = []          # (begin index, end index, ret)
        self.subs_hist = []          # not used by all
        self.batching = set()        # modules that ever changed batch settings
        self.occ = []                # (index, kind, slot)  kind in started/stopped/loop_started/loop_stopped
        self.sys_deliv = []          # (rec V, recipient)
        self._unnamed = []
        self.loop_obs = []           # (index, observed looping flag)
        self._walk()

    def state_at(self, slot, idx):
        h = self.state_hist.get(slot, [])
        cur = None
        for i, l in h:
            if i > idx:
                break
            cur = l
        return cur

    def left_active_between(self, slot, i0, i1):
        """True if slot was observed outside {R,P} at some point in (i0, i1]"""
        for i, l in self.state_hist.get(slot, []):
            if i0 < i <= i1 and l not in ("R", "P"):
                return True
        return False

    def _walk(self):
        F = self.F
        st = {}
        subs = {}                    # slot -> {topic idx: flags}
        calls = []
        cbs = []
        pending = {}                 # slot -> number of messages believed to be in the mailbox
        looping = False
        loop_begin = None
        unstash_depth = 0
        for r in self.recs:
            if r.k == "S":
                for m, (l, _sl) in r.states.items():
                    if st.get(m) != l:
                        a = st.get(m)
                        self.state_hist.setdefault(m, []).append((r.i, l))
                        if l in ("S", "Z"):
                            subs.pop(m, None)
                            pending[m] = 0
                        if l == "R" and a in ("I", "S", "P"):
                            self.occ.append((r.i, "started", m, a))
                        if a == "R" and l in ("P", "S", "Z"):
                            self.occ.append((r.i, "stopped", m, l))
                        elif a in ("P", "I", "S") and l in ("S", "Z") and a != l:
                            self.occ.append((r.i, "stopped_maybe", m, l))
                        st[m] = l
                for m in list(st):
                    if m not in r.states:
                        del st[m]
                now_loop = r.ctx.get("loop") == "1"
                if now_loop and not looping:
                    loop_begin = r.i
                    self.occ.append((r.i, "loop_started", -1, None))
                if looping and not now_loop and r.ctx.get("loop") == "0":
                    self.occ.append((r.i, "loop_stopped", -1, None))
                if r.ctx.get("loop") in ("0", "1"):
                    looping = now_loop
                    self.loop_obs.append((r.i, looping))
            elif r.k == ">":
                calls.append(r)
                sl = r.fields.get("slots", [])
                if r.op == "unstash":
                    unstash_depth += 1
                if r.op in ("tell", "publish") and sl:
                    s = Send()
                    s.pid = r.args[2]
                    s.sender = sl[0]
                    s.flags = r.args[3]
                    s.begin = r.i
                    s.end = None
                    s.ret = None
                    s.delivered = {}
                    s.free_count = 0
                    s.freed_at = None
                    s.loop_at_send = looping
                    s.low_or_oneshot = set()
                    s.sub_flags = {}
                    if r.op == "tell":
                        s.kind = "tell"
                        s.target = sl[1] if len(sl) > 1 else None
                        s.topic = None
                        s.eligible = {s.target} if st.get(s.target) in ("R", "P") else set()
                    else:
                        ti = r.args[1]
                        s.target = None
                        if ti < 0:
                            s.kind = "broadcast"
                            s.topic = None
                            s.eligible = {m for m, l in st.items() if l in ("R", "P")}
                        else:
                            s.kind = "publish"
                            s.topic = F.topics[ti] if ti < len(F.topics) else None
                            s.eligible = set()
                            for m, l in st.items():
                                if l not in ("R", "P"):
                                    continue
                                for tix, (fl, _ud) in subs.get(m, {}).items():
                                    if s.topic is not None and topic_matches(F.topics[tix], s.topic):
                                        s.eligible.add(m)
                                        s.sub_flags.setdefault(m, []).append(fl)
                                        if fl & (SRC_LOW | SRC_ONESHOT):
                                            s.low_or_oneshot.add(m)
                    s.state_at_send = dict(st)
                    s.pending_at_send = dict(pending)
                    r.fields["send"] = s
                    self._unnamed.append(s)
                if r.op == "pill" and len(sl) > 1:
                    s = Send()
                    s.pid = None
                    s.kind = "pill"
                    s.sender, s.target = sl[0], sl[1]
                    s.begin, s.end, s.ret = r.i, None, None
                    s.state_at_send = dict(st)
                    s.pending_at_send = dict(pending)
                    self.pills.append(s)
                    r.fields["send"] = s
            elif r.k == "<":
                c = None
                for j in range(len(calls) - 1, -1, -1):
                    if calls[j].id == r.id:
                        c = calls.pop(j)
                        break
                if c is None:
                    continue
                if c.op == "unstash":
                    unstash_depth -= 1
                s = c.fields.get("send")
                if s is not None:
                    s.end = r.i
                    s.ret = r.ret
                    if executed(r) and r.ret >= 0:
                        tg = s.eligible if s.kind != "pill" else ({s.target} if s.state_at_send.get(s.target) == "R" else set())
                        for m in tg:
                            pending[m] = pending.get(m, 0) + 1
                sl = c.fields.get("slots", [])
                if c.op == "sub" and executed(r) and r.ret >= 0 and sl:
                    subs.setdefault(sl[0], {})[c.args[1]] = (c.args[2], c.args[3] if len(c.args) > 3 else 0)
                if c.op == "unsub" and executed(r) and r.ret >= 0 and sl:
                    subs.get(sl[0], {}).pop(c.args[1], None)
                if c.op in ("bsize", "btimeout") and executed(r) and sl:
                    self.batching.add(sl[0])
                if c.op == "ctx_loop":
                    self.loop_runs.append((c.i, r.i, r.ret))
                if c.op == "ctx_dispatch" and c.depth == 0:
                    lp = r.fields.get("looping")
                    if lp == "1" and not getattr(self, "_dloop", None):
                        self._dloop = c.i
                    if lp == "0" and getattr(self, "_dloop", None):
                        self.loop_runs.append((self._dloop, r.i, r.ret))
                        self._dloop = None
            elif r.k == "N" and r.extra.startswith("pay "):
                # run-time payload id of the send in progress
                if calls and "send" in calls[-1].fields:
                    s = calls[-1].fields["send"]
                    s.pid = int(r.extra.split()[2])
                    self.sends[s.pid] = s
            elif r.k == "B":
                cbs.append(r)
            elif r.k == "E":
                if cbs:
                    cbs.pop()
            elif r.k == "V" and r.kind == "ps":
                hb = cbs[-1] if cbs else None
                if r.fields.get("sys") == "1":
                    self.sys_deliv.append((r, r.slot, unstash_depth > 0))
                    if pending.get(r.slot, 0) > 0 and unstash_depth == 0:
                        pending[r.slot] -= 1
                    # one-shot system subscriptions
                else:
                    try:
                        pid = int(r.fields.get("data", "0"))
                    except ValueError:
                        pid = -1
                    s = self.sends.get(pid)
                    self.deliveries.append((r, r.slot, s, unstash_depth > 0, hb))
                    if unstash_depth == 0 and pending.get(r.slot, 0) > 0:
                        pending[r.slot] -= 1
                # one-shot subscription that fired is gone (only messages that came through a subscription: topic set)
                if unstash_depth == 0:
                    t = r.fields.get("topic", "-1:-").split(":", 1)[1]
                    if t != "-":
                        # the userdata token says which subscription the message came through
                        for tx, (fl, ud) in list(subs.get(r.slot, {}).items()):
                            if fl & SRC_ONESHOT and str(ud) == r.fields.get("ud") and topic_matches(F.topics[tx], t):
                                subs[r.slot].pop(tx, None)
            elif r.k == "F" and r.kind == "pay":
                s = self.sends.get(r.n)
                if s is not None:
                    s.free_count += 1
                    if s.freed_at is None:
                        s.freed_at = r.i
        if getattr(self, "_dloop", None):
            self.loop_runs.append((self._dloop, len(self.recs), None))

    def run_end_after(self, idx, looping_at_idx=True):
        """(begin, end) of the loop run that must have delivered a message sent at idx: the run in progress if the
        context was observed looping at that time, else (sent while idle or during the final flush of a run that was
        already stopping) the next run that starts afterwards; None if there is none"""
        for b, e, _ret in self.loop_runs:
            if looping_at_idx and e > idx:
                return b, e
            if not looping_at_idx and b > idx:
                return b, e
        return None


def check_c02(case, stats=None):
    W = World(case)
    V = []
    F = W.F

    def bad(key, msg, r=None):
        V.append(("C02/" + key, msg + ((" (trace line %d: %s)" % (r.i, r.raw[:110])) if r is not None else "")))

    seen = {}
    for (r, m, s, in_unstash, hb) in W.deliveries:
        if in_unstash:
            continue
        pid = r.fields.get("data")
        if s is None or s.ret is None or s.ret < 0 or s.ret <= -1000:
            bad("delivery-without-accepted-send", "module %d received payload %s that matches no accepted send" % (m, pid), r)
            continue
        if stats is not None:
            stats["deliveries"] = stats.get("deliveries", 0) + 1
        # content
        snd = r.fields.get("sender")
        if snd not in (str(s.sender), "-2"):
            bad("wrong-sender", "payload %s sent by module %d delivered with sender %s" % (pid, s.sender, snd), r)
        ttxt = r.fields.get("topic", "-1:-").split(":", 1)[1]
        if (s.topic or "-") != ttxt:
            bad("wrong-topic", "payload %s sent on topic %s delivered with topic %s" % (pid, s.topic, ttxt), r)
        if m not in s.eligible:
            bad("delivered-to-ineligible", "%s payload %s (sent at trace line %d) delivered to module %d which was not an eligible recipient when it was sent (eligible: %s; its state then: %s)" % (s.kind, pid, s.begin, m, sorted(s.eligible), s.state_at_send.get(m)), r)
        if m in s.delivered:
            bad("delivered-twice", "%s payload %s delivered twice to module %d" % (s.kind, pid, m), r)
        s.delivered[m] = r.i
        if W.state_at(m, r.i) not in ("R", None):
            pass        # C01's clause
    by_send = {}
    for d in W.deliveries:
        if d[2] is not None:
            by_send.setdefault(id(d[2]), []).append(d)
    # completeness
    for pid, s in W.sends.items():
        if s.ret is None or s.ret < 0:
            continue
        if stats is not None:
            stats["accepted_sends"] = stats.get("accepted_sends", 0) + 1
            stats["recipients_total"] = stats.get("recipients_total", 0) + len(s.eligible)
            k = "fanout_%s" % ("0" if not s.eligible else "1" if len(s.eligible) == 1 else "many")
            stats[k] = stats.get(k, 0) + 1
        run = W.run_end_after(s.end, s.loop_at_send)
        for m in s.eligible:
            if m in s.delivered:
                continue
            if run is None:
                continue
            b, e = run
            if e >= len(W.recs):
                continue                # run did not end inside the trace
            if e + 1 < len(W.recs) and W.recs[e + 1].k == "S":
                e = e + 1               # the observation taken right after the loop call returned
            if m in W.batching or m in s.low_or_oneshot:
                continue
            if s.pending_at_send.get(m, 0) >= MAILBOX_SAFE:
                continue
            if W.left_active_between(m, s.begin, e):
                continue                # stopped / deregistered first: discarded
            if W.state_at(m, e) != "R":
                continue                # PAUSED (or gone) when the loop ended
            # the loop "ends" when it stops polling and starts its final flush (first observation of the context as
            # idle inside the run): a module PAUSED at that point has its mail discarded there, also if a handler run
            # by that very flush resumes it afterwards
            fstart = next((j for j, f in W.loop_obs if b < j <= e and not f), None)
            if fstart is not None and W.state_at(m, fstart) != "R":
                if stats is not None:
                    stats["resumed_inside_final_flush"] = stats.get("resumed_inside_final_flush", 0) + 1
                continue
            # the run must have started after or around the send; a message sent while the context was idle is
            # picked up by the next run
            bad("message-lost", "%s payload %d sent by module %d at trace line %d was accepted and module %d was eligible (state %s), stayed active and was RUNNING when the loop run ended at trace line %d, but never received it" % (s.kind, pid, s.sender, s.begin, m, s.state_at_send.get(m), e), W.recs[s.begin])
            if stats is not None:
                stats["lost"] = stats.get("lost", 0) + 1
        # auto-free
        if s.flags & PS_AUTOFREE:
            if stats is not None:
                stats["autofree_sends"] = stats.get("autofree_sends", 0) + 1
            if s.free_count > 1:
                bad("autofree-released-more-than-once", "auto-free payload %d released %d times" % (pid, s.free_count), W.recs[s.begin])
            if not s.eligible:
                if not (s.freed_at is not None and s.begin < s.freed_at < s.end):
                    bad("autofree-not-released-at-once", "auto-free %s payload %d had no eligible recipient but was not released during the send call (released at line %s)" % (s.kind, pid, s.freed_at), W.recs[s.begin])
            else:
                if s.free_count == 0 and _teardown_complete(W):
                    bad("autofree-never-released", "auto-free payload %d (recipients %s) was never released although the context is gone and all references dropped" % (pid, sorted(s.eligible)), W.recs[s.begin])
                if s.freed_at is not None:
                    # must not be released before the last recipient is done: no handler holding it may end after the release
                    for (r, m, s2, in_unstash, hb) in by_send.get(id(s), ()):
                        if s2 is s and hb is not None:
                            end_i = _end_of(W.recs, hb)
                            if r.i > s.freed_at or (hb.i < s.freed_at < end_i):
                                bad("autofree-released-too-early", "auto-free payload %d released at trace line %d while module %d's handler (lines %d-%d) was still using it / before it was delivered" % (pid, s.freed_at, m, hb.i, end_i), r)
                                break
    for r in W.recs:
        if r.k == "A":
            bad("payload-or-block-freed-wrongly", "allocator verdict: %s" % r.extra, r)
    return V


def _end_of(recs, b):
    depth = 0
    for r in recs[b.i:]:
        if r.k == "B":
            depth += 1
        elif r.k == "E":
            depth -= 1
            if depth == 0:
                return r.i
    return len(recs)


def _teardown_complete(W):
    q = [r for r in W.recs if r.k == "Q" and r.kind == "q"]
    if not q or W.recs[-1].k != "#":
        return False
    if any(r.k == "<" and r.op == "ctx_deregister" and r.ret == 0 for r in W.recs):
        return True
    # ... or the (non-persistent) context was released along with its last module: the last observation before the quiescent
    # point finds the thread without a context
    last = None
    for r in W.recs:
        if r.k == "S" and r.i < q[-1].i:
            last = r
    return last is not None and last.ctx.get("ctx") == "0"


def check_c08(case, stats=None):
    W = World(case)
    V = []

    def bad(key, msg, r=None):
        V.append(("C08/" + key, msg + ((" (trace line %d: %s)" % (r.i, r.raw[:110])) if r is not None else "")))

    # per-recipient order of first-time deliveries vs non-overlapping send intervals
    maxbegin = {}
    for (r, m, s, in_unstash, hb) in W.deliveries:
        if in_unstash or s is None or s.end is None:
            continue
        mb = maxbegin.get(m)
        if mb is not None and s.end < mb[0]:
            o = mb[1]
            bad("reordered", "module %d received payload %s (sent at lines %d-%d) after payload %s (sent later, at lines %d-%d)" % (m, s.pid, s.begin, s.end, o.pid, o.begin, o.end), r)
        if mb is None or s.begin > mb[0]:
            maxbegin[m] = (s.begin, s)
        if stats is not None:
            stats["ordered_deliveries"] = stats.get("ordered_deliveries", 0) + 1
    # poison pills
    effective_until = {}        # recipient -> index until which an earlier pill is still pending
    for p in W.pills:
        if p.ret is None or p.ret < 0 or p.end is None:
            continue
        m = p.target
        if p.state_at_send.get(m) not in ("R", "P"):
            continue
        if p.pending_at_send.get(m, 0) >= MAILBOX_SAFE:
            continue            # the mailbox may have been full: the pill can be lost like any other message (C02's proviso)
        if effective_until.get(m, -1) > p.begin:
            continue            # shadowed by an earlier pill that had not taken effect yet: it will never be read
        if stats is not None:
            stats["pills"] = stats.get("pills", 0) + 1
            if p.state_at_send.get(m) == "P":
                stats["pills_to_paused"] = stats.get("pills_to_paused", 0) + 1
        # moment the pill took effect: first time m is observed not RUNNING after the pill was sent
        eff = None
        for i, l in W.state_hist.get(m, []):
            if i > p.begin and l != "R":
                eff = (i, l)
                break
        # an accepted pill stays in force while the recipient is only paused and resumed (its mailbox is kept, or - PAUSED at
        # loop stop - discarded together with the pill, which then stops it): nothing sent after it is delivered until the
        # recipient has been stopped or deregistered
        gone = None
        for i, l in W.state_hist.get(m, []):
            if i > p.begin and l not in ("R", "P"):
                gone = i
                break
        effective_until[m] = gone if gone is not None else len(W.recs)
        limit = gone if gone is not None else len(W.recs)
        for (r, mm, s, in_unstash, hb) in W.deliveries:
            if mm != m or in_unstash or s is None or s.end is None:
                continue
            if s.begin > p.end and p.end < r.i < limit:
                bad("delivered-after-pill", "module %d received payload %s sent (line %d) after an accepted poison pill (lines %d-%d) that had not stopped it yet" % (m, s.pid, s.begin, p.begin, p.end), r)
                break
        if eff and eff[1] == "S" and _pill_caused(W, m, eff[0]):
            # every message sent before the pill (non-overlapping) to m while m was RUNNING must have been delivered already
            for pid, s in W.sends.items():
                if s.end is None or s.ret is None or s.ret < 0 or s.end >= p.begin:
                    continue
                if m not in s.eligible or s.state_at_send.get(m) != "R":
                    continue
                # (also when the recipient batches its events or the message came through a low-priority subscription: what
                # was accumulated is handed over before the pill takes effect)
                if s.pending_at_send.get(m, 0) >= MAILBOX_SAFE:
                    continue
                if any(fl & SRC_ONESHOT for fl in s.sub_flags.get(m, [])):
                    continue        # matched through a one-shot subscription: only the first such message is delivered
                if W.left_active_between(m, s.begin, eff[0] - 1) or _was_paused_between(W, m, s.begin, eff[0]):
                    continue
                d = s.delivered.get(m) if hasattr(s, "delivered") else None
                got = [r.i for (r, mm, s2, iu, hb) in W.deliveries if s2 is s and mm == m and not iu]
                if not got or min(got) > eff[0]:
                    bad("pill-overtook-message", "poison pill (sent at lines %d-%d) stopped module %d at trace line %d although payload %d, sent to it earlier (lines %d-%d), had not been delivered" % (p.begin, p.end, m, eff[0], pid, s.begin, s.end), W.recs[eff[0]])
                    break
    return V


def _was_paused_between(W, m, i0, i1):
    for i, l in W.state_hist.get(m, []):
        if i0 < i < i1 and l == "P":
            return True
    return False


def _pill_caused(W, m, idx):
    """the stop observed at idx happened with no stop/dereg call on m in progress (i.e. inside the loop machinery)"""
    calls = []
    for r in W.recs[:idx + 1]:
        if r.k == ">":
            calls.append(r)
        elif r.k == "<":
            for j in range(len(calls) - 1, -1, -1):
                if calls[j].id == r.id:
                    calls.pop(j)
                    break
    last = W.recs[idx - 1] if idx > 0 else None
    cs = list(calls)
    for c in cs:
        sl = c.fields.get("slots", [])
        if c.op in ("stop", "dereg", "start") and sl and sl[0] == m:
            return False
        if c.op in ("ctx_deregister", "reg"):
            return False
    if last is not None and last.k == "<" and last.op in ("stop", "dereg", "start", "ctx_deregister", "reg"):
        return False
    # a start carried out by the loop itself (evaluation pass) and refused by the start callback stops the module as well:
    # the last callback boundary of m before the observation (its stop callback aside) is then the refusing return
    for j in range(idx - 1, -1, -1):
        r = W.recs[j]
        if r.k in ("B", "E") and r.slot == m:
            if r.kind == "stop":
                continue
            if r.k == "E" and r.kind == "start" and r.ret == 0:
                return False
            break
    return True


SYS = {"started": "LIBMODULE_MOD_STARTED", "stopped": "LIBMODULE_MOD_STOPPED", "stopped_maybe": "LIBMODULE_MOD_STOPPED",
       "loop_started": "LIBMODULE_CTX_STARTED", "loop_stopped": "LIBMODULE_CTX_STOPPED"}


def check_c19(case, stats=None):
    """system notifications mirror loop and module transitions"""
    W = World(case)
    F = W.F
    V = []

    def bad(key, msg, r=None):
        V.append(("C19/" + key, msg + ((" (trace line %d: %s)" % (r.i, r.raw[:110])) if r is not None else "")))

    # occurrences in trace order
    occ_by_key = {}          # (topic, sender) -> sorted list of indexes (all occurrences, liberal)
    for (i, kind, m, extra) in W.occ:
        occ_by_key.setdefault((SYS[kind], m), []).append(i)
    # tick arming intervals from ctx_tick calls
    arm = []                 # (t_start_us, period_ns) in order; period 0 = disarmed
    for r in W.recs:
        if r.k == "<" and r.op == "ctx_tick" and executed(r) and r.ret >= 0 and r.begin is not None:
            arm.append((r.begin.t, r.args[0]))
    received = {}            # (m, topic, sender) -> count
    ticks = {}               # m -> count
    since_run = {}
    for (r, m, in_unstash) in W.sys_deliv:
        if in_unstash:
            continue
        topic = r.fields.get("topic", "-1:-").split(":", 1)[1]
        if r.fields.get("data") not in ("0", None):
            bad("system-message-with-payload", "system notification %s delivered to module %d with a payload (%s)" % (topic, m, r.fields.get("data")), r)
        try:
            snd = int(r.fields.get("sender", "-1"))
        except ValueError:
            snd = -1
        if stats is not None:
            stats["sys_" + topic.replace("LIBMODULE_", "").lower()] = stats.get("sys_" + topic.replace("LIBMODULE_", "").lower(), 0) + 1
        if topic == "LIBMODULE_CTX_TICK":
            ticks[m] = ticks.get(m, 0) + 1
            bound = 0.0
            for j, (t0, per) in enumerate(arm):
                if t0 > r.t or per <= 0:
                    continue
                t1 = arm[j + 1][0] if j + 1 < len(arm) else r.t
                t1 = min(t1, r.t)
                bound += (t1 - t0) * 1000.0 / per + 1
            # no burst of stale ticks after a pause either: since the module last entered RUNNING
            t_run = None
            for i_, l_ in W.state_hist.get(m, []):
                if i_ <= r.i and l_ == "R":
                    t_run = W.recs[i_].t
                elif i_ <= r.i and l_ != "R":
                    t_run = None
            if t_run is not None:
                key_r = (m, t_run)
                since_run[key_r] = since_run.get(key_r, 0) + 1
                bound_r = 2.0
                for j, (t0, per) in enumerate(arm):
                    if per <= 0:
                        continue
                    a0 = max(t0, t_run)
                    a1 = min(arm[j + 1][0] if j + 1 < len(arm) else r.t, r.t)
                    if a1 > a0:
                        bound_r += (a1 - a0) * 1000.0 / per + 1
                if since_run[key_r] > bound_r + 1e-9:
                    bad("tick-too-often", "module %d received %d tick notifications within %d us of (re)entering RUNNING; at most %.1f tick periods can have expired in that time: ticks that came due while it was paused are handed over in a burst" % (m, since_run[key_r], r.t - t_run, bound_r), r)
                    continue
            if ticks[m] > bound + 1e-9:
                bad("tick-too-often", "module %d received its tick notification #%d at t=%dus although at most %.1f tick periods can have expired since the tick was configured" % (m, ticks[m], r.t, bound), r)
            continue
        if topic == "LIBMODULE_MOD_POISONPILL":
            bad("poisonpill-delivered-as-message", "the internal poison pill message was handed to module %d's handler" % m, r)
            continue
        if topic not in SYS.values():
            bad("unknown-system-topic", "system-flagged message with topic %s delivered to module %d" % (topic, m), r)
            continue
        if topic.startswith("LIBMODULE_CTX_"):
            snd_key = -1
            if snd != -1:
                bad("wrong-sender", "%s delivered to module %d names module %d as sender (loop notifications have none)" % (topic, m, snd), r)
        else:
            snd_key = snd
        key = (m, topic, snd_key)
        received[key] = received.get(key, 0) + 1
        have = sum(1 for i in occ_by_key.get((topic, snd_key), []) if i <= r.i)
        if snd_key == -2:
            continue        # sender is a module the harness no longer observes
        if received[key] > have:
            bad("notification-without-occurrence", "module %d received %s naming module %d for the %d-th time (trace line %d) but only %d such transitions/loop events happened until then" % (m, topic, snd_key, received[key], r.i, have), r)
    # completeness on the clean cases: literal, normal-priority subscription held over the whole loop run
    subs_t = _sub_intervals(W)
    required = {}
    witness = {}
    for (i, kind, x, extra) in W.occ:
        if kind == "stopped_maybe":
            continue
        topic = SYS[kind]
        # (a start refused by its callback, or undone inside it, is an entry into RUNNING all the same: it is notified, and
        # so is the stop that follows)
        run = None
        if kind == "loop_stopped":
            for b0, e0, _r in W.loop_runs:
                if b0 <= i <= e0 + 1:
                    run = (b0, e0)
        else:
            run = W.run_end_after(i, _looping_at(W, i))
        if run is None or run[1] >= len(W.recs):
            continue
        b, e = run
        if e + 1 < len(W.recs) and W.recs[e + 1].k == "S":
            e += 1
        for m in list(W.state_hist):
            if m == x or m in W.batching:
                continue
            # (a subscription by regular expression matching the system topic counts like the literal one)
            iv = [(s0, s1, fl) for (mm, t, s0, s1, fl) in subs_t if mm == m and t is not None and topic_matches(t, topic)]
            # (a low-priority subscription only delays the hand-over: what is held back is flushed when the run ends)
            ok = any(s0 < min(i, b) - 3 and (s1 is None or s1 > e) and not (fl & SRC_ONESHOT) for (s0, s1, fl) in iv)
            if not ok:
                continue
            # a one-shot subscription that matches too may be the one a message is attached to when it is sent (the literal one
            # is looked up first) - and that message is dropped if the subscription has fired by the time it is read
            if any((fl & SRC_ONESHOT) and s0 <= e and (s1 is None or s1 >= min(i, b) - 3) for (s0, s1, fl) in iv):
                continue
            lo = min(i, b) - 1
            # a subscriber paused and resumed in between keeps its mail (ordinary delivery rules): still required, as long
            # as it is RUNNING again when the run ends (the final flush hands over what is left)
            # (a subscriber that is PAUSED when it happens is sent the notification too)
            if W.state_at(m, lo) not in ("R", "P") or W.left_active_between(m, lo, e) or W.state_at(m, e) != "R":
                continue
            if W.state_at(m, lo) == "P":
                # a paused module's mailbox is discarded by the final flush of a run: an occurrence that may have happened
                # inside such a flush (observed between the last time a run was seen looping and the observation following
                # its end) is not owed to a subscriber that was PAUSED then
                in_flush = False
                for b0, e0, _r0 in W.loop_runs:
                    last_loop = max([j for j, f in W.loop_obs if b0 <= j <= e0 and f] or [b0])
                    if last_loop < i <= e0 + 1:
                        in_flush = True
                if in_flush:
                    continue
            fstart = next((j for j, f in W.loop_obs if b < j <= e and not f), None)
            if fstart is not None and W.state_at(m, fstart) != "R":
                continue        # PAUSED when the loop stopped polling: its mail is discarded by the final flush
            if _was_paused_between(W, m, lo - 1, e + 1) and stats is not None:
                stats["required_for_paused_and_resumed_subscriber"] = stats.get("required_for_paused_and_resumed_subscriber", 0) + 1
            key = (m, topic, x if kind in ("started", "stopped") else -1)
            required[key] = required.get(key, 0) + 1
            witness.setdefault(key, (i, kind, x))
    # a subscriber to both module topics can track the state of the others: the last notification it got about a module
    # during a loop run tells what that module's state is when the run ends
    T_START, T_STOP = SYS["started"], SYS["stopped"]
    for (b, e, _ret) in W.loop_runs:
        if e >= len(W.recs):
            continue
        e2 = e + 1 if (e + 1 < len(W.recs) and W.recs[e + 1].k == "S") else e
        fstart = next((j for j, f in W.loop_obs if b < j <= e2 and not f), None)
        if fstart is None:
            continue
        last = {}           # (subscriber, named module) -> (topic, rec)
        for (r, m, in_unstash) in W.sys_deliv:
            if in_unstash or not (b <= r.i <= e2):
                continue
            topic = r.fields.get("topic", "-1:-").split(":", 1)[1]
            if topic not in (T_START, T_STOP):
                continue
            try:
                snd = int(r.fields.get("sender", "-1"))
            except ValueError:
                continue
            if snd < 0:
                continue
            last[(m, snd)] = (topic, r)
        for (m, x), (topic, r) in last.items():
            if m == x or m in W.batching:
                continue
            ok_sub = all(any(s0 < b - 3 and (s1 is None or s1 > e2) and not (fl & (SRC_LOW | SRC_ONESHOT)) for (mm, t, s0, s1, fl) in subs_t if mm == m and t == tp) for tp in (T_START, T_STOP))
            if not ok_sub:
                continue
            if W.state_at(m, b - 1) != "R" or W.left_active_between(m, b - 1, e2) or _was_paused_between(W, m, b - 2, e2 + 1) or W.state_at(m, e2) != "R":
                continue
            # the named module must not have changed state once the final flush had begun (what is sent then may reach the
            # subscriber only in the next run), and must still be observed
            if any(fstart <= i <= e2 for i, _l in W.state_hist.get(x, [])):
                continue
            sx = W.state_at(x, e2)
            if sx is None:
                continue
            if stats is not None:
                stats["state_tracking_judged"] = stats.get("state_tracking_judged", 0) + 1
            if (topic == T_START) != (sx == "R"):
                bad("notifications-out-of-order", "when the loop run ended module %d was %s, but the last notification module %d had received about it in that run is %s: a subscriber following the notifications ends up with the opposite of the real state" % (x, {"R": "RUNNING", "P": "PAUSED", "S": "STOPPED", "I": "IDLE", "Z": "deregistered"}.get(sx, sx), m, topic), r)
    for key, need in required.items():
        got = received.get(key, 0)
        if got < need:
            m, topic, x = key
            i, kind, _x = witness[key]
            bad("notification-missing", "module %d held a literal subscription to %s over whole loop runs and stayed RUNNING; %d qualifying occurrences (%s of %s, first at trace line %d) happened but it received only %d such notifications" % (m, topic, need, kind, ("module %d" % x) if x >= 0 else "the loop", i, got), W.recs[i])
    return V


def _counts(W, subs_t, m, topic, i, kind, x):
    return True


def _looping_at(W, i):
    """last *observed* looping flag at trace index i (during the final flush of a run the context already reports idle)"""
    cur = False
    for j, f in W.loop_obs:
        if j > i:
            break
        cur = f
    return cur


def _start_confirmed(W, x, i):
    """the module is still RUNNING at the next observation that ends the enclosing activity and its start callback
    (if it ran) did not refuse"""
    for r in W.recs[i:i + 400]:
        if r.k == "E" and r.kind == "start" and r.slot == x:
            return bool(r.ret) and W.state_at(x, r.i) == "R"
        if r.k == "S" and r.i > i and r.states.get(x, ("?", 0))[0] != "R":
            return False
        if r.k == "<" and r.depth == 0:
            break
    return W.state_at(x, i) == "R"


def _sub_intervals(W):
    """(module, literal topic, from index, to index or None, flags) for subscriptions to the system topics"""
    out = []
    open_ = {}
    F = W.F
    calls = {}
    st = {}
    for r in W.recs:
        if r.k == ">" and r.op in ("sub", "unsub"):
            calls[r.id] = r
        elif r.k == "<" and r.id in calls:
            c = calls.pop(r.id)
            sl = c.fields.get("slots", [])
            if not sl or not executed(r) or r.ret < 0:
                continue
            t = F.topics[c.args[1]] if c.args[1] < len(F.topics) else None
            if c.op == "sub":
                if (sl[0], t) in open_:
                    m0, t0, s0, fl0 = open_.pop((sl[0], t))
                    out.append((m0, t0, s0, r.i, fl0))
                open_[(sl[0], t)] = (sl[0], t, r.i, c.args[2])
            else:
                if (sl[0], t) in open_:
                    m0, t0, s0, fl0 = open_.pop((sl[0], t))
                    out.append((m0, t0, s0, c.i, fl0))
        elif r.k == "S":
            for m, (l, _x) in r.states.items():
                if st.get(m) != l and l in ("S", "Z"):
                    for k in [k for k in open_ if k[0] == m]:
                        m0, t0, s0, fl0 = open_.pop(k)
                        out.append((m0, t0, s0, r.i - 2, fl0))
                st[m] = l
    for k, (m0, t0, s0, fl0) in open_.items():
        out.append((m0, t0, s0, None, fl0))
    return out

"""Parser for core_exec traces and a sequential walker shared by the offline oracles."""


class Rec:
    __slots__ = ("i", "t", "k", "id", "depth", "op", "args", "ret", "err", "slot", "kind", "n", "hidx", "fields",
                 "raw", "states", "ctx", "extra", "end", "begin")

    def __init__(self, i, t, k, raw):
        self.i = i
        self.t = t
        self.k = k
        self.raw = raw
        self.id = self.depth = self.op = self.args = self.ret = self.err = None
        self.slot = self.kind = self.n = self.hidx = None
        self.fields = {}
        self.states = None
        self.ctx = None
        self.extra = None
        self.end = None      # for '>' records: the matching '<' record
        self.begin = None    # for '<' records: the matching '>' record

    def __repr__(self):
        return "<%d %s>" % (self.i, self.raw)


def _kv(parts):
    d = {}
    for p in parts:
        if "=" in p:
            a, b = p.split("=", 1)
            d[a] = b
    return d


def parse(text):
    """returns (records, problems).  records carry the observed state snapshot valid *after* them."""
    recs = []
    problems = []
    open_calls = {}
    for ln in text.splitlines():
        if not ln:
            continue
        sp = ln.split(" ")
        try:
            t = int(sp[0])
            k = sp[1]
        except (ValueError, IndexError):
            problems.append("unparsable line: " + ln[:100])
            continue
        r = Rec(len(recs), t, k, ln)
        if k == ">":
            r.id = int(sp[2])
            r.depth = int(sp[3])
            r.op = sp[4]
            r.args = [int(x) for x in sp[5:]]
            open_calls[r.id] = r
        elif k == "<":
            r.id = int(sp[2])
            r.ret = int(sp[3])
            r.err = int(sp[4])
            r.fields = _kv(sp[5:])
            b = open_calls.pop(r.id, None)
            if b is not None:
                r.begin = b
                b.end = r
                r.op = b.op
                r.args = b.args
                r.depth = b.depth
                b.ret = r.ret
                b.err = r.err
        elif k in ("B", "E"):
            r.slot = int(sp[2])
            r.kind = sp[3]
            r.n = int(sp[4])
            if k == "B":
                r.hidx = int(sp[5])
                r.depth = int(sp[6])
            else:
                r.ret = int(sp[5])
        elif k == "V":
            r.slot = int(sp[2])
            r.n = int(sp[3])
            r.extra = int(sp[4])          # index in batch
            r.kind = sp[5]                # ps/fd/tmr/...
            r.fields = _kv(sp[6:])
        elif k == "S":
            st = {}
            rest = ln.split(" ", 2)[2] if len(sp) > 2 else ""
            left, _, right = rest.partition("|")
            for tok in left.split():
                a = tok.split(":")
                st[int(a[0])] = (a[1], int(a[2]))
            r.states = st
            r.ctx = _kv(right.split())
        elif k == "F":
            r.kind = sp[2]
            r.n = int(sp[3])
        elif k == "X":
            r.kind = sp[2]
            if sp[2] == "close":
                r.fields = {"fd": int(sp[3]), "cls": sp[4], "fdkind": sp[5], "uidx": int(sp[6])}
            else:
                r.fields = {"fd": int(sp[3])}
        elif k == "O":
            r.kind = sp[2]
            r.fields = {"fd": int(sp[3])}
        elif k == "Q":
            r.fields = _kv(sp[2:])
            if "fds" in r.fields:
                idx = ln.find("fds=")
                r.fields["fds"] = ln[idx + 4:].split()
            r.kind = "leak" if len(sp) > 2 and sp[2] == "leak" else "q"
        elif k in ("N", "A", "!", "W", "#"):
            r.extra = " ".join(sp[2:])
            if k == "N" and len(sp) >= 5 and sp[2] == "pay":
                c = open_calls.get(int(sp[3]))
                if c is not None:
                    c.fields = dict(c.fields)
                    c.fields["pay"] = int(sp[4])
        else:
            problems.append("unknown record: " + ln[:100])
        recs.append(r)
    return recs, problems


class Walker:
    """Replays a trace keeping: open call stack, callback stack, last observed states.
    Subclasses / users call step() record by record or iterate observations()."""

    def __init__(self, recs):
        self.recs = recs
        self.calls = []          # open '>' records
        self.cbs = []            # open 'B' records
        self.states = {}         # slot -> (letter, srclen)
        self.ctx = {}

    def walk(self):
        """yields (rec, just_closed_call) for every record, after updating stacks; S records update states first"""
        for r in self.recs:
            closed = None
            if r.k == ">":
                self.calls.append(r)
            elif r.k == "<":
                if self.calls and self.calls[-1].id == r.id:
                    closed = self.calls.pop()
                else:
                    for j in range(len(self.calls) - 1, -1, -1):
                        if self.calls[j].id == r.id:
                            closed = self.calls.pop(j)
                            break
            elif r.k == "B":
                self.cbs.append(r)
            elif r.k == "E":
                if self.cbs:
                    self.cbs.pop()
            elif r.k == "S":
                self.states = r.states
                self.ctx = r.ctx
            yield r, closed


def abbreviate(text, maxlines=60):
    lines = text.splitlines()
    if len(lines) <= maxlines:
        return lines
    return lines[:maxlines // 2] + ["... (%d lines omitted) ..." % (len(lines) - maxlines)] + lines[-maxlines // 2:]

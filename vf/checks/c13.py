"""C13 — priorities and batching (offline oracle with an exact model on serialised scenarios, plain build)."""
from vf import gen, corecheck as cc, framework as fw, model_batch

RULE = ("batching profile: a target module with LOW, NORMAL and HIGH subscriptions and a descriptor source (always HIGH), batch sizes "
        "0,1,2,3,7,64 changed between bursts, pause/resume and stop/start cycles (settings must be back to default: probed), 8% of "
        "the scenarios with batch timeouts. Production is serialised (after each burst the loop runs more batches than events are "
        "outstanding), so arrival order and the settings in force are unambiguous and the model is exact: the sequence of handler "
        "invocations and the events of each must equal the model's (invoke on HIGH, on NORMAL when count >= size, never on LOW; "
        "LOW rides along); one extra invocation at loop stop handing over what is accumulated is tolerated. On all scenarios: no "
        "loss, duplicate or reorder; events accumulated at stop never show up later. non-trivial = scenario with >= 2 handler "
        "invocations carrying >= 2 events; batching_resub_prio profile: the same with re-subscriptions of the three topics under another priority (the priority of a topic is that of its latest accepted subscription); batch_then_mail_at_quit profile: events accumulated (size / timeout / low priority) and later messages still unread when the loop stops (conservation and order only); distinct = hash of the trace")
ASSUME = ["timeout scenarios are judged for conservation only", "told/broadcast messages count as NORMAL priority", "vf/model_batch.py", "VERIF_SEED"]


def run(tier):
    res = fw.Result("C13", tier)
    n = 500 if tier == "quick" else 15000
    seed = fw.seed()
    stats = {}
    cases = []
    for i in range(n):
        s = seed * 1000003 + i
        sc = gen.gen_batching(s)
        for m in ("loop", "dispatch"):
            c = cc.Case()
            c.sc, c.profile, c.mode, c.seed = sc, "batching", m, s
            cases.append(c)
    # the same batching scenarios with re-subscriptions that change only the priority of a topic
    for i in range(150 if tier == "quick" else 4000):
        s = seed * 1000003 + 500000 + i
        c = cc.Case()
        c.sc, c.profile, c.mode, c.seed = gen.gen_batching(s, resub=True), "batching_resub_prio", ("loop" if i % 2 else "dispatch"), s
        cases.append(c)
    # accumulated events + unread mail when the loop stops: the final flush keeps arrival order
    for k in range(24 if tier == "quick" else 600):
        s = seed * 1000 + k
        c = cc.Case()
        c.sc, c.profile, c.mode, c.seed = gen.gen_batch_then_mail_at_quit(s), "batch_then_mail_at_quit", ("loop" if k % 2 else "dispatch"), s
        cases.append(c)

    def oracle(case):
        return model_batch.check_c13(case, stats)

    def relevant(case):
        n2 = 0
        cur = 0
        for r in case.recs:
            if r.k == "B" and r.kind == "evt" and r.slot == 1:
                cur = 0
            elif r.k == "V" and r.slot == 1:
                cur += 1
                if cur == 2:
                    n2 += 1
        return n2 >= 2
    cc.run_checked(res, cases, "plain", oracle, relevant, "C13")
    res.counters.update(stats)
    fw.finish(res, RULE, ASSUME)


def replay(path):
    cc.replay_file(path)

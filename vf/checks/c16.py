"""C16 — stash/unstash (offline oracle, plain build)."""
from vf import gen, corecheck as cc, framework as fw, model_stash_become

RULE = ("stash_become profile: a target module stashing told / published (NORMAL, LOW) events and trying to stash HIGH ones (descriptor "
        "events, HIGH subscription) from inside its handlers; m_mod_unstash(n) with n in {1,2,3,5,64,SIZE_MAX,0} around the stash size "
        "from handlers and from driver steps; become/unbecome (4 distinct handler functions) from both places; replays under a "
        "different handler; pause/resume and stop/start cycles; a third of the scenarios with injected allocation failures (first allocation of an unstash / become call: clean refusal); stash_corners profile: unstash refused for lack of a token several times in a row; stash kept over pause, dropped by a stop / poison pill that comes while PAUSED, restart, unstash. stash_userdata profile: the subscription of a stashed event gets another user pointer before the unstash; both driving modes. "
        + ("Oracle C16: FIFO of stashed event tokens per module; stash accepted iff RUNNING and not high-priority; unstash(n) returns "
           "min(n, stashed) and causes exactly one directly nested handler invocation (none if 0) carrying exactly the oldest events "
           "in stash order with unchanged content; refused unless RUNNING; stash empty after stop. non-trivial = scenario with an "
           "accepted stash and an unstash that handed something over" if 16 == 16 else
           "Oracle C17: handler stack per module; every handler invocation (also stash replays) must go to the top of the stack or "
           "to the registration-time handler when empty; unbecome pops exactly one and fails on an empty stack; both refused unless "
           "RUNNING; stack empty after stop. non-trivial = scenario with an invocation under an installed handler")
        + "; distinct = hash of the trace")
ASSUME = ["handler identity is observable because the harness registers four distinct handler functions", "event identity = (kind, sender, topic, unique payload, user data)",
          "a call refused with -EAGAIN (a third of the targets are throttled) must leave stash and handler stack untouched", "vf/model_stash_become.py", "VERIF_SEED"]


def run(tier):
    res = fw.Result("C16", tier)
    n = 500 if tier == "quick" else 15000
    seed = fw.seed()
    stats = {}
    cases = []
    for i in range(n):
        s = seed * 1000003 + i
        sc = gen.gen_stash_become(s)
        for m in ("loop", "dispatch"):
            c = cc.Case()
            c.sc, c.profile, c.mode, c.seed = sc, "stash_become", m, s
            cases.append(c)

    for k in range(16 if tier == "quick" else 400):
        sc = gen.gen_stash_userdata(seed * 1000 + k)
        for m in ("loop", "dispatch"):
            c = cc.Case()
            c.sc, c.profile, c.mode, c.seed = sc, "stash_userdata", m, seed * 1000 + k
            cases.append(c)

    for k in range(20 if tier == "quick" else 400):
        sc = gen.gen_stash_corners(seed * 1000 + k)
        for m in ("loop", "dispatch"):
            c = cc.Case()
            c.sc, c.profile, c.mode, c.seed = sc, "stash_corners", m, seed * 1000 + k
            cases.append(c)

    def oracle(case):
        return model_stash_become.check_c16(case, stats)

    def relevant(case):
        if 16 == 16:
            return any(r.k == "<" and r.op == "stash" and r.ret == 0 for r in case.recs) and any(r.k == "<" and r.op == "unstash" and r.ret is not None and r.ret > 0 for r in case.recs)
        return any(r.k == "B" and r.kind == "evt" and r.hidx not in (0, None) for r in case.recs)
    cc.run_checked(res, cases, "plain", oracle, relevant, "C16")
    res.counters.update(stats)
    fw.finish(res, RULE, ASSUME)


def replay(path):
    cc.replay_file(path)

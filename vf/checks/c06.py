"""C06 — thread pool: stress under ASan and TSan with hook-driven delay injection, spurious wake-ups,
stamps, concurrency gauge, pool-touched-after-free monitor and a quiescence-based deadlock detector."""
import os
from concurrent.futures import ThreadPoolExecutor
from vf import build, framework as fw

RULE = ("[a third of the runs have tasks that submit one follow-up task to their own pool (accepted, or refused because the pool is shutting down); a fifth inject pthread_create failures (EAGAIN) into m_thpool_new/m_thpool_add: a refused task never runs, a failed creation leaves nothing behind, nothing deadlocks] "
        "each run draws one configuration: threads 1-8 x flavour {eager, lazy, detached, lazy+detached} x submitters 1-6 x "
        "tasks 0-64 x wait_all x clear x task profile x per-hook-point delay probabilities x spurious-broadcast chaos thread; "
        "monitors: per-task execution counter and argument identity, start/finish stamps vs the stamp at which m_thpool_free "
        "returned, concurrency gauge <= threads, hook events adjacent to pool accesses after free returned, allocator balance, "
        "logical deadlock criterion (no progress + all threads asleep over 5 samples while a call is outstanding); "
        "ASan+UBSan build and a separate TSan build. distinct_nontrivial = distinct interleaving signatures (hash of the "
        "hook-event (point, thread-role) sequence + configuration) over all runs")
ASSUME = ["schedules are sampled, not enumerated: absence of a deadlock/race in K perturbed runs is not absence",
          "submitters are joined before m_thpool_free (documented contract)", "hooks of commit 'verif-hook:' in Lib/thpool/thpool.c",
          "gcc ASan/TSan runtimes", "VERIF_SEED"]


def run(tier):
    res = fw.Result("C06", tier)
    s = fw.seed()
    exe_a = build.build_harness("thp_stress", "asan", ["thp_stress.c"], extra_link=["-Wl,--wrap=pthread_create"])
    exe_t = build.build_harness("thp_stress", "tsan", ["thp_stress.c"], extra_flags=["-DVF_NO_LEDGER"], extra_link=["-Wl,--wrap=pthread_create"])
    if tier == "quick":
        na, nt, per = 16, 16, 150
    else:
        na, nt, per = 128, 96, 600
    jobs = [("asan", exe_a, [s * 7919 + i, per, 15]) for i in range(na)] + \
           [("tsan", exe_t, [s * 104729 + i, per, 15]) for i in range(nt)]

    def one(j):
        v, exe, args = j
        return j, fw.run_proc([exe] + [str(a) for a in args], 1800)
    with ThreadPoolExecutor(fw.NPROC) as ex:
        outs = list(ex.map(one, jobs))
    tsan_seen = {}
    for (v, exe, args), (rc, out, err, dt) in outs:
        fails, stats, sigs, samples, _ = fw.parse_protocol(out)
        for k, val in stats.items():
            res.count(v + "_" + k, val)
        res.signatures.update(sigs)
        for sm in samples:
            if len(res.samples) < 5:
                res.samples.append(v + ": " + sm)
        replay = {"cmd": [exe] + [str(a) for a in args], "stderr_tail": err[-4000:], "stdout_tail": out[-1500:]}
        if rc == "timeout":
            res.inconclusive.append({"what": "watchdog (not a verdict)", "cmd": replay["cmd"]})
            continue
        for k, d in fails:
            res.violate(k, d, replay)
        if v == "tsan":
            for key, blk in fw.tsan_reports(err):
                if key not in tsan_seen:
                    tsan_seen[key] = 1
                    res.violate("C06/" + key, blk[:3000], replay)
        elif not fails and rc != 0:
            ce = fw.classify_exit(rc, out, err)
            if ce:
                res.violate("C06/" + ce[0], ce[1], replay)
            else:
                raise RuntimeError("thp_stress exited %s: %s" % (rc, err[-800:]))
        if v == "tsan" and rc not in (0, 96, 1) and not fails:
            ce = fw.classify_exit(rc, out, err)
            if ce:
                res.violate("C06/" + ce[0], ce[1], replay)
    res.evaluations = res.counters.get("asan_runs", 0) + res.counters.get("tsan_runs", 0)
    fw.finish(res, RULE, ASSUME)


def replay(path):
    import json, subprocess
    r = json.load(open(path))
    raise SystemExit(subprocess.call(r["replay"]["cmd"]))

"""C18 — token bucket (offline oracle with one-sided real-time bounds, plain build)."""
from vf import gen, corecheck as cc, framework as fw, model_tb, model_registry

RULE = ("tb_refused_ownership profile: registrations carrying auto-close / auto-free refused for lack of a token - nothing the caller handed in may be closed or freed during the refused call, and the same registrations succeed once the limit is lifted. tokenbucket profile: a running module with rate r in {100,200,500,1000}/s and burst b in {1,2,3,5,10,20}; bursts of 1..3b+8 "
        "cheap token-consuming calls (batch size, tell, publish, (un)subscribe, become/unbecome) issued from driver steps while the "
        "loop keeps dispatching; exhaustion followed by > 25 token periods of dispatching and a probe; re-configuration while 0-3 "
        "user timers are registered; rate 0 and stop/start followed by 3b+22 back-to-back calls. Oracle, with the harness timestamps "
        "taken right before (t-) and after (t+) every call: for every pair i <= j of successful consuming calls since the bucket was "
        "set, j-i+1 <= b + r*(t+_j - t-_i)*(1+1e-6) + 2 (sound for any refill discipline whose expiries are read by the loop); a call returning -EAGAIN changes neither "
        "state nor source count nor delivers anything; -EAGAIN never appears without a bucket or after its removal; the probe after "
        "the long pause must not be refused; the user timers stay consistent with the keyed-set model (C09's oracle on these traces). "
        "non-trivial = scenario with at least one -EAGAIN and one later success; distinct = hash of the trace")
ASSUME = ["CLOCK_MONOTONIC timestamps of the harness; the bound is one-sided so scheduling delays can only make it looser",
          "the loop must keep dispatching for tokens to be replenished (refill is driven by an internal timer source)", "vf/model_tb.py", "VERIF_SEED"]


def run(tier):
    res = fw.Result("C18", tier)
    n = 400 if tier == "quick" else 6000
    seed = fw.seed()
    stats = {}
    cases = []
    for i in range(n):
        s = seed * 1000003 + i
        sc = gen.gen_tokenbucket(s)
        c = cc.Case()
        c.sc, c.profile, c.mode, c.seed = sc, "tokenbucket", ("loop" if i % 2 else "dispatch"), s
        cases.append(c)

    for k in range(24 if tier == "quick" else 400):
        c = cc.Case()
        c.sc, c.profile, c.mode, c.seed = gen.gen_tb_refused_ownership(seed * 1000 + k), "tb_refused_ownership", ("loop" if k % 2 else "dispatch"), seed * 1000 + k
        cases.append(c)

    # re-configurations refused for their arguments (rate above 10^9) in between: the old limit stays in force
    for i in range(80 if tier == "quick" else 1500):
        s = seed * 1000003 + 700000 + i
        c = cc.Case()
        c.sc, c.profile, c.mode, c.seed = gen.gen_tokenbucket(s, refused=True), "tokenbucket_refused_reconf", ("loop" if i % 2 else "dispatch"), s
        cases.append(c)

    def oracle(case):
        v = model_tb.check_c18(case, stats)
        v += [("C18/timer-registry:" + k.split("/", 1)[1], d) for k, d in model_registry.check_c09(case, None) if "count-mismatch" in k]
        return v

    def relevant(case):
        ea = [r.i for r in case.recs if r.k == "<" and r.ret == -11]
        return bool(ea) and any(r.k == "<" and r.op in model_tb.CONSUMING and r.ret is not None and r.ret >= 0 and r.i > ea[0] for r in case.recs)
    cc.run_checked(res, cases, "plain", oracle, relevant, "C18", timeout=180)
    res.counters.update(stats)
    fw.finish(res, RULE, ASSUME)


def replay(path):
    cc.replay_file(path)

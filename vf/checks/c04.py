"""C04 — memory and lifetime safety: every core profile executed on the ASan+UBSan(+LSan) build with the accounting
allocator installed; oracle = sanitizer reports + allocator verdicts + outstanding table at quiescence + zombie /
retained-event probes."""
from vf import gen, corecheck as cc, framework as fw

RULE = ("scenarios (random API programs with scripted re-entrant callbacks, see vf/gen.py) from the profiles mixed, "
        "hostile_lifetime (bursts past the mailbox capacity; self stop/deregister/unsubscribe with mail in flight; a module "
        "stopped/deregistered/paused by another one while it has events in the same poll batch; events of every kind retained past "
        "source, module and context; auto-free to 0/1/many recipients; re-subscription with other flags), shared_signal / oneshot_burst / fd_error (events the receive loop skips), stash_become (stash / unstash / become, a third throttled by a token bucket, a third with injected allocation failures: refused calls leave nothing behind), stash_corners, resub_dup (a duplicated topic subscribed again with other flags, then looked up), pause_others_in_batch, last_ref / ctx_gone (a module or the whole context goes away inside a callback because the reference given to m_mod_deregister was the last one) (every third mixed/hostile scenario runs without the harness's observation references, so released memory is really released) run on the asan build; "
        "plus a slice of fresh scenarios on the plain build under valgrind memcheck; "
        "violated by any ASan/UBSan/LSan/memcheck report or fatal signal, a free() of a block the accounting allocator does not hold, "
        "blocks outstanding after the context is gone and every user reference dropped, a zombie not answering its name, a "
        "retained event whose content changed. non-trivial = scenario with at least one callback-nested API call or retained event; "
        "distinct = hash of the timestamp-free trace")
ASSUME = ["red-zone tools miss intra-object overflows and reuse after quarantine; the accounting allocator narrows the latter "
          "for the library's own blocks", "documented preconditions are respected by the generators (DESIGN.md §2)",
          "gcc ASan/UBSan/LSan runtimes; valgrind 3.19 memcheck (leak check off: the accounting allocator decides leaks)", "VERIF_SEED"]
KNOWN = {"task_hostile": "C04/known:task-outlives-its-source"}


def oracle(case):
    v = []
    lastq = None
    for r in case.recs:
        if r.k == "A":
            v.append(("C04/alloc:" + r.extra.split(" | ")[0].replace("alloc/", ""), r.extra))
        elif r.k == "!" and r.extra.startswith("payload"):
            v.append(("C04/payload-content-changed", r.extra))
        elif r.k == "Q" and r.kind == "q":
            lastq = r
        elif r.k == "<" and r.op == "nameof" and r.ret is not None and r.ret > -1000:
            if r.ret % 10 != 1:
                v.append(("C04/module-name-lost", "m_mod_name() of slot %s does not answer the registered name (ret=%d: zombie=%d)" % (r.args[0], r.ret, r.ret // 10)))
        elif r.k == "<" and r.op in ("evt_check", "evt_release") and r.ret == 0:
            v.append(("C04/retained-event-changed", "retained event %s no longer has the content it was delivered with" % r.args[0]))
    if lastq is not None:
        live = int(lastq.fields.get("live", "0"))
        if live > 0:
            leaks = [x.raw.split(" ", 2)[2] for x in case.recs if x.k == "Q" and x.kind == "leak"]
            v.append(("C04/leak-at-quiescence", "%d blocks outstanding after the context was deregistered and every user reference dropped: %s" % (live, leaks[:4])))
    else:
        if case.run.rc == 0:
            v.append(("HARNESS/no-quiesce", "scenario did not reach its quiescent point"))
    return v


def relevant(case):
    return any((r.k == ">" and r.depth and r.depth > 0) for r in case.recs)


def build_cases(tier, seed):
    n = 800 if tier == "quick" else 20000
    cases = []
    for i in range(n):
        c = cc.Case()
        s = seed * 1000003 + i
        x = i % 10
        if x < 5:
            c.sc, c.profile = gen.gen_mixed(s), "mixed"
        else:
            c.sc, c.profile = gen.gen_hostile(s), "hostile_lifetime"
        if i % 3 == 2:
            c.sc = gen.without_observation_refs(c.sc)
        c.mode = "loop" if (i // 10) % 2 == 0 else "dispatch"
        c.seed = s
        cases.append(c)
    for k in range(max(20, n // 20)):
        c = cc.Case()
        c.sc, c.profile, c.mode, c.seed = gen.gen_last_ref(seed * 1000 + k), "last_ref", ("loop" if k % 2 else "dispatch"), seed * 1000 + k
        cases.append(c)
    for k in range(max(20, n // 20)):
        c = cc.Case()
        c.sc, c.profile, c.mode, c.seed = gen.gen_ctx_gone(seed * 1000 + k), "ctx_gone", ("loop" if k % 2 else "dispatch"), seed * 1000 + k
        cases.append(c)
    for k in range(max(60, n // 10)):
        c = cc.Case()
        c.sc, c.profile, c.mode, c.seed = gen.gen_bind_hostile(seed * 1000 + k), "bind_hostile", ("loop" if k % 2 else "dispatch"), seed * 1000 + k
        cases.append(c)
    for k in range(max(40, n // 20)):
        c = cc.Case()
        c.sc, c.profile, c.mode, c.seed = gen.gen_redispatch(seed * 1000 + k), "redispatch", ("loop" if k % 2 else "dispatch"), seed * 1000 + k
        cases.append(c)
    for k in range(max(12, n // 100)):
        c = cc.Case()
        c.sc, c.profile, c.mode, c.seed = gen.gen_replace_by_own_name(seed * 1000 + k), "replace_by_own_name", ("loop" if k % 2 else "dispatch"), seed * 1000 + k
        cases.append(c)
    for k in range(max(12, n // 100)):
        c = cc.Case()
        c.sc, c.profile, c.mode, c.seed = gen.gen_tick_in_flush(seed * 1000 + k), "tick_in_flush", ("loop" if k % 2 else "dispatch"), seed * 1000 + k
        cases.append(c)
    # the receive loop's skip paths (a descriptor found empty because another module's read consumed the occurrence, one-shot
    # sources firing in a burst, descriptors in error state): what is skipped must still be released
    # refused calls must not leave anything behind either: throttled stash / unstash / become (token bucket), allocation failures
    for k in range(max(40, n // 20)):
        c = cc.Case()
        c.sc, c.profile, c.mode, c.seed = gen.gen_stash_become(seed * 1000 + k), "stash_become", ("loop" if k % 2 else "dispatch"), seed * 1000 + k
        cases.append(c)
    for prof, g, q in (("stash_corners", gen.gen_stash_corners, 48), ("resub_dup", gen.gen_resub_dup, 16), ("pause_others_in_batch", gen.gen_pause_others_in_batch, 16)):
        for k in range(max(q, n // 40)):
            c = cc.Case()
            c.sc, c.profile, c.mode, c.seed = g(seed * 1000 + k), prof, ("loop" if k % 2 else "dispatch"), seed * 1000 + k
            cases.append(c)
    for prof, g in (("shared_signal", gen.gen_shared_signal), ("oneshot_burst", gen.gen_oneshot_burst), ("fd_error", gen.gen_fd_error)):
        for k in range(max(8, n // 100)):
            c = cc.Case()
            c.sc, c.profile, c.mode, c.seed = g(seed * 1000 + k), prof, ("loop" if k % 2 else "dispatch"), seed * 1000 + k
            cases.append(c)
    for prof, g in (("task_hostile", gen.gen_task_hostile), ("restart_in_stop", gen.gen_restart_in_stop)):
        for k in range(3):
            c = cc.Case()
            c.sc, c.profile, c.mode, c.seed = g(seed * 10 + k), prof, "loop", seed * 10 + k
            cases.append(c)
    return cases


def run(tier):
    res = fw.Result("C04", tier)
    cases = build_cases(tier, fw.seed())
    def post(c):
        res.count("callback_nested_calls", sum(1 for r in c.recs if r.k == ">" and r.depth))
        res.count("events_retained", sum(1 for r in c.recs if r.k == "<" and r.op == "evt_retain" and r.ret is not None and r.ret >= 0))
        res.count("autofree_payload_frees", sum(1 for r in c.recs if r.k == "F" and r.kind == "pay"))
    cc.run_checked(res, cases, "asan", oracle, relevant, "C04", known_class=KNOWN, post=post)
    # second opinion: fresh scenarios of the same profiles on the plain build under valgrind memcheck (reads of
    # uninitialised memory are invisible to ASan); a case valgrind is too slow for is inconclusive, not a verdict
    mc = [c for c in build_cases(tier, fw.seed() + 7777) if c.profile in ("mixed", "hostile_lifetime", "last_ref", "ctx_gone")]
    mc = mc[:32 if tier == "quick" else 2000]
    cc.run_checked(res, mc, "memcheck", oracle, relevant, "C04", timeout=600)
    res.count("cases_under_memcheck", len(mc))
    for p in ("mixed", "hostile_lifetime"):
        res.count("cases_" + p, sum(1 for c in cases if c.profile == p))
    fw.finish(res, RULE, ASSUME)


def replay(path):
    cc.replay_file(path)

"""C02 — pub/sub: exactly the eligible recipients, once; payload release (offline oracle, plain build)."""
from vf import gen, corecheck as cc, framework as fw, model_pubsub

RULE = ("messaging profile: 2-6 modules with overlapping literal / regular-expression subscriptions and non-recipients, tell / publish / "
        "broadcast from the main script, from driver steps and from every callback kind, interleaved with pause/resume/stop/"
        "deregister/poison pills, auto-free payloads to 0, 1 and many recipients, sends followed at once by quit (final flush); "
        "plus the hostile burst templates (8190..9000 messages to one mailbox), idle_throttled, paused_recipient_stopped (auto-free mail to a PAUSED module that is then stopped / deregistered / replaced while paused), colliding_topics, full_mailbox_broadcast (a broadcast and a publish while one of 6-11 modules with seed-dependent names has more than 8192 messages pending: every other eligible module still gets them), and oneshot_resub_at_flush (a one-shot subscription replaced by a persistent one while its message is in flight, handed over by the final flush, topic published again in the next run). Every payload is a unique token, so a delivery "
        "identifies its send. Oracle: no delivery without an accepted send / to a module not eligible at send time / twice; "
        "sender and topic as supplied; an eligible recipient that stays active, is RUNNING when the loop run ends, is not batching / "
        "low-priority / one-shot and had < 8000 pending must have received it; auto-free released exactly once, not before its last "
        "handler returned, during the send call when nobody was eligible. non-trivial = scenario with >= 2 accepted sends and a "
        "delivery; distinct = hash of the timestamp-free trace")
ASSUME = ["eligibility is computed from the module states *observed* right before the send (C01 judges the states)",
          "topic vocabulary restricted to patterns on which POSIX and python regex agree; literal topics are no substrings of each other",
          "one-shot subscriptions with several pending messages: either outcome accepted", "harness/core_exec.c, vf/model_pubsub.py", "VERIF_SEED"]


def build(tier, seed):
    n = 500 if tier == "quick" else 12000
    cases = []
    for i in range(n):
        s = seed * 1000003 + i
        if i % 12 == 11:
            sc, prof = gen.gen_hostile(gen.hostile_seed_for(i // 12, s)), "hostile"      # burst / self-dereg / resubscribe templates
        else:
            sc, prof = gen.gen_messaging(s), "messaging"
        for m in ("loop", "dispatch"):
            c = cc.Case()
            c.sc, c.profile, c.mode, c.seed = sc, prof, m, s
            cases.append(c)
    for k in range(20 if tier == "quick" else 400):
        sc = gen.gen_idle_throttled(seed * 1000 + k)
        for m in ("loop", "dispatch"):
            c = cc.Case()
            c.sc, c.profile, c.mode, c.seed = sc, "idle_throttled", m, seed * 1000 + k
            cases.append(c)
    for k in range(16 if tier == "quick" else 400):
        sc = gen.gen_oneshot_resub_at_flush(seed * 1000 + k)
        for m in ("loop", "dispatch"):
            c = cc.Case()
            c.sc, c.profile, c.mode, c.seed = sc, "oneshot_resub_at_flush", m, seed * 1000 + k
            cases.append(c)
    for k in range(16 if tier == "quick" else 400):
        sc = gen.gen_paused_recipient_stopped(seed * 1000 + k)
        for m in ("loop", "dispatch"):
            c = cc.Case()
            c.sc, c.profile, c.mode, c.seed = sc, "paused_recipient_stopped", m, seed * 1000 + k
            cases.append(c)
    for k in range(16 if tier == "quick" else 400):
        sc = gen.gen_colliding_topics(seed * 1000 + k)
        for m in ("loop", "dispatch"):
            c = cc.Case()
            c.sc, c.profile, c.mode, c.seed = sc, "colliding_topics", m, seed * 1000 + k
            cases.append(c)
    for k in range(6 if tier == "quick" else 120):
        sc = gen.gen_full_mailbox_broadcast(seed * 1000 + k)
        c = cc.Case()
        c.sc, c.profile, c.mode, c.seed = sc, "full_mailbox_broadcast", ("loop" if k % 2 else "dispatch"), seed * 1000 + k
        cases.append(c)
    return cases


def run(tier):
    res = fw.Result("C02", tier)
    stats = {}
    cases = build(tier, fw.seed())

    def oracle(case):
        return model_pubsub.check_c02(case, stats)

    def relevant(case):
        sends = sum(1 for r in case.recs if r.k == "<" and r.op in ("tell", "publish") and r.ret is not None and r.ret >= 0)
        deliv = any(r.k == "V" and r.kind == "ps" for r in case.recs)
        return sends >= 2 and deliv
    cc.run_checked(res, cases, "plain", oracle, relevant, "C02")
    res.counters.update(stats)
    fw.finish(res, RULE, ASSUME)


def replay(path):
    cc.replay_file(path)

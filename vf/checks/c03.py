"""C03 — events reach their owner; loop ends only for stated reasons; loop == dispatch (offline oracle, plain build)."""
from vf import gen, corecheck as cc, framework as fw, model_events

RULE = ("[extra profiles: oneshot_burst (a one-shot subscription fires once however many matching messages are in flight), shared_signal (two modules poll one signal + one-shot descriptors ready in the same batch), fd_error (write end of a pipe whose reader is gone), signal_vs_task_thread, task_queued_at_quit (known finding), quit_during_loop_start (quit requested by a callback the loop start runs)] "
        "sources profile (pipes/eventfds, timers, signals, tasks; 1-100 descriptors ready in one poll batch; every callback leaves a "
        "scripted errno: 0, EINTR, EAGAIN, EIO, ENOENT, EBADF, EPIPE, random 1..133; pause/stop/quit before, inside and after "
        "batches) plus the messaging profile; each scenario runs under the blocking loop and as a dispatch loop. Oracle: an event's "
        "(kind, key, user-data token) must belong to a source its module registered; a one-shot source fires once; every token the "
        "harness wrote into a registered pipe whose owner stayed RUNNING yields exactly one event by the end of the run (the run "
        "ends with enough empty batches); a loop run ends only after an accepted quit (returning exactly that code) or with no "
        "module RUNNING; an accepted quit is honoured (no further poll batch in the blocking loop, the next dispatch call stops the loop); the per-module multisets of deterministic deliveries (pub/sub, descriptors, signals) of the two driving "
        "modes are equal. non-trivial = scenario delivering >= 3 non-kicker events; distinct = hash of the trace")
ASSUME = ["no poll failures are injected: the 'genuine polling failure' exit is not exercised", "kernel pipe/epoll/signalfd/timerfd semantics",
          "timers are only bounded from above", "vf/model_events.py", "VERIF_SEED"]

KNOWN = {"task_queued_at_quit": "C03/known:task-queued-at-loop-stop-never-runs"}


def run(tier):
    res = fw.Result("C03", tier)
    n = 400 if tier == "quick" else 15000
    seed = fw.seed()
    stats = {}
    cases = []
    pairs = []
    for i in range(n):
        s = seed * 1000003 + i
        if i % 4 == 3:
            sc, prof = gen.gen_messaging(s), "messaging"
        else:
            sc, prof = gen.gen_sources(s), "sources"
        pr = []
        for m in ("loop", "dispatch"):
            c = cc.Case()
            c.sc, c.profile, c.mode, c.seed = sc, prof, m, s
            cases.append(c)
            pr.append(c)
        pairs.append(pr)

    for k in range(40 if tier == "quick" else 1500):
        sc = gen.gen_oneshot_burst(seed * 1000 + k)
        for m in ("loop", "dispatch"):
            c = cc.Case()
            c.sc, c.profile, c.mode, c.seed = sc, "oneshot_burst", m, seed * 1000 + k
            cases.append(c)

    for k in range(16 if tier == "quick" else 400):
        sc = gen.gen_quit_during_loop_start(seed * 1000 + k)
        for m in ("loop", "dispatch"):
            c = cc.Case()
            c.sc, c.profile, c.mode, c.seed = sc, "quit_during_loop_start", m, seed * 1000 + k
            cases.append(c)

    for k in range(30 if tier == "quick" else 600):
        sc = gen.gen_shared_signal(seed * 1000 + k)
        for m in ("loop", "dispatch"):
            c = cc.Case()
            c.sc, c.profile, c.mode, c.seed = sc, "shared_signal", m, seed * 1000 + k
            cases.append(c)

    for k in range(12 if tier == "quick" else 200):
        sc = gen.gen_fd_error(seed * 1000 + k)
        for m in ("loop", "dispatch"):
            c = cc.Case()
            c.sc, c.profile, c.mode, c.seed = sc, "fd_error", m, seed * 1000 + k
            cases.append(c)

    for k in range(8 if tier == "quick" else 100):
        c = cc.Case()
        c.sc, c.profile, c.mode, c.seed = gen.gen_signal_vs_task_thread(seed * 100 + k), "signal_vs_task_thread", ("loop" if k % 2 else "dispatch"), seed * 100 + k
        cases.append(c)
    for k in range(2):
        c = cc.Case()
        c.sc, c.profile, c.mode, c.seed = gen.gen_task_queued_at_quit(seed * 10 + k), "task_queued_at_quit", ("loop" if k else "dispatch"), seed * 10 + k
        cases.append(c)

    def oracle(case):
        return model_events.check_c03(case, stats, conservation=(case.profile in ("sources", "shared_signal", "fd_error")))

    def relevant(case):
        return sum(1 for r in case.recs if r.k == "V" and r.slot != 0) >= 3
    # two-mode differential on the deterministic part (judged chunk by chunk, while the traces are in memory)
    ndiff_box = [0]
    partner = {id(a): b for a, b in pairs}

    def differential(chunk):
        here = set(id(c) for c in chunk)
        for a in chunk:
            b = partner.get(id(a))
            if b is None:
                continue
            if id(b) not in here:
                raise RuntimeError("the two driving modes of one scenario ended up in different chunks")
            if a.run.rc != 0 or b.run.rc != 0:
                continue
            if any(r.k == "W" for r in a.recs + b.recs):
                continue
            if a.profile == "sources" and (any(r.k == "<" and r.op in ("tmr_reg", "task_reg", "sleep") for r in a.recs)):
                continue        # timing dependent: not part of the deterministic sub-profile
            if a.profile == "messaging" and any(r.k == "<" and r.op in ("tmr_reg", "sleep", "ctx_tick", "btimeout", "tb") and r.ret is not None and r.ret >= 0 for r in a.recs):
                continue
            ndiff_box[0] += 1
            for key, detail in model_events.differential(a, b):
                res.violate(key, detail + " [profile=%s seed=%s]" % (a.profile, a.seed), cc.replay_of(a, "differential: also run in dispatch mode"))
    cc.run_checked(res, cases, "plain", oracle, relevant, "C03", known_class=KNOWN, after_chunk=differential)
    ndiff = ndiff_box[0]
    res.counters.update({k: v for k, v in stats.items() if k != "batch_sizes"})
    res.counters["dispatch_batch_size_histogram"] = {str(k): v for k, v in sorted(stats.get("batch_sizes", {}).items())}
    res.counters["differential_pairs_compared"] = ndiff
    fw.finish(res, RULE, ASSUME)


def replay(path):
    cc.replay_file(path)

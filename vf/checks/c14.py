"""C14 — independent contexts on different threads (TSan, ASan, alone-vs-concurrent differential) and thread confinement
(foreign-thread call matrix)."""
import re
import os
from concurrent.futures import ThreadPoolExecutor
from vf import build, framework as fw

RULE = ("[the foreign-call matrix runs twice: owner parked on a barrier, and owner parked inside a callback of the victim; foreign threads also poll the plain getters while the owner drives a module through start/pause/resume/stop] "
        "choreographed task rounds: context A pauses the module of a running task, context B then registers a task of its own, A's task function returns first - B must see exactly one task event, after its own function returned, with its own return value. each run starts T = 2..8 threads, every one registering its own context with 2-4 modules (same module names in every "
        "context), literal + regex subscriptions, a descriptor source, 1-1.5 ms timers and task sources, and running a seeded "
        "deterministic program from its leader's timer (publish / tell / broadcast / descriptor writes / task registration) until "
        "quit, then tearing down; executed concurrently under TSan and under ASan; every ThreadSanitizer report is a violation (keyed "
        "by report type and innermost library frames); inside each context every received message must come from a module of "
        "that context, every event must carry its own module's user data, the number of messages received must equal what the "
        "context's own program sent (so nothing leaked between contexts), and the per-context counters of the concurrent run must "
        "equal those of the same seeds run one thread after the other. The foreign-call matrix calls every non-getter m_mod_* entry "
        "point (cross-checked against the prototypes in public/module/mod.h) on a RUNNING module from a thread holding another "
        "context and from a thread holding none while the owner is parked on a barrier: each must fail and the owner must observe no "
        "change; tell / poisonpill to a module of another context must fail. distinct_nontrivial = distinct (seed, threads) "
        "concurrent runs whose contexts exchanged >= 20 messages")
ASSUME = ["race detection is per observed execution; schedules are sampled", "gcc TSan understands the eventfd/pipe hand-off of task sources",
          "module handles passed across threads are live references (the owner is parked while they are used)", "VERIF_SEED"]

GETTERS = {"m_mod_name", "m_mod_is", "m_mod_state", "m_mod_userdata", "m_mod_register"}


def prototypes():
    p = os.path.join(build.REPO, "Lib/core/public/module/mod.h")
    txt = open(p).read()
    names = set(re.findall(r"^\s*(?:int|ssize_t|bool|m_mod_states|m_mod_t \*|const char \*|const void \*)\s*(m_mod_\w+)\s*\(", txt, re.M))
    return names - GETTERS


def run(tier):
    res = fw.Result("C14", tier)
    s = fw.seed()
    exe_t = build.build_harness("multictx", "tsan", ["multictx.c"])
    exe_a = build.build_harness("multictx", "asan", ["multictx.c"])
    nrun = 150 if tier == "quick" else 5000
    jobs = []
    for i in range(nrun):
        sd = s * 100003 + i
        nt = 2 + (i % 7)
        steps = 10 + (i * 7) % 40
        jobs.append(("tsan", exe_t, [sd, nt, steps, 0]))
        if i % 3 == 0:
            jobs.append(("asan", exe_a, [sd, nt, steps, 0]))
        if i % 2 == 0:
            jobs.append(("alone", exe_a, [sd, nt, steps, 1]))
            if i % 3 != 0:
                jobs.append(("asan", exe_a, [sd, nt, steps, 0]))
    for v, exe in (("tsan", exe_t), ("asan", exe_a)):
        for k in range(4 if tier == "quick" else 40):
            jobs.append(("matrix-" + v, exe, [s + k, 2, 5, 2]))

    # task completion stays inside its context (choreographed, ASan build; see harness/multictx.c mode 3)
    for k in range(4 if tier == "quick" else 80):
        jobs.append(("choreo", exe_a, [s + k, 2, 10 if tier == "quick" else 25, 3]))

    def one(j):
        return j, fw.run_proc([j[1]] + [str(a) for a in j[2]], 600)
    with ThreadPoolExecutor(max(2, fw.NPROC // 4)) as ex:      # each run is itself multi-threaded
        outs = list(ex.map(one, jobs))
    ctxlines = {}
    covered = {}
    tsan_seen = set()
    for (v, exe, args), (rc, out, err, dt) in outs:
        replay = {"cmd": [exe] + [str(a) for a in args], "stderr_tail": err[-4000:], "stdout_tail": out[-1500:]}
        if rc == "timeout":
            res.inconclusive.append({"what": "watchdog", "cmd": replay["cmd"]})
            continue
        res.evaluations += 1
        fails, stats, sigs, samples, other = fw.parse_protocol(out)
        for k, d in fails:
            if k.startswith("HARNESS/"):
                raise RuntimeError("multictx harness failure: %s %s" % (k, d))
            res.violate(k, d + " [run %s %s]" % (v, args), replay)
        for key, blk in fw.tsan_reports(err):
            if "nolib:" in key:
                raise RuntimeError("ThreadSanitizer report inside the harness itself: %s" % blk[:1500])
            if key not in tsan_seen:
                tsan_seen.add(key)
                res.violate("C14/" + key, blk[:3500] + " [run %s %s]" % (v, args), replay)
        if not fails and rc not in (0, 96) and not (v == "tsan" and rc == 66):
            ce = fw.classify_exit(rc, out, err)
            if ce:
                res.violate("C14/" + ce[0], ce[1], replay)
            elif rc != 1:
                raise RuntimeError("multictx exited %s: %s" % (rc, err[-800:]))
        cl = [l for l in other if l.startswith("CTX ")]
        if v in ("tsan", "asan", "alone") and cl:
            key = (args[0], args[1], args[2])
            proj = sorted(re.sub(r" recv_fd=\d+", "", l) for l in cl)
            ctxlines.setdefault(key, {})[v] = proj
            msgs = sum(int(re.search(r"recv_ps=(\d+)", l).group(1)) for l in cl)
            if v == "tsan" and msgs >= 20:
                res.signatures.add("%s-%s-%s" % key)
            res.count("messages_exchanged", msgs)
            res.count("contexts_run_" + v, len(set(l.split()[1] for l in cl)))
            if v == "tsan" and len(res.samples) < 3:
                res.samples.append({"args": args, "per_context_counters": cl[:8]})
        if v == "choreo":
            res.count("choreographed_task_rounds", stats.get("choreographed_task_rounds", 0))
            res.count("choreographed_task_rounds_clean", stats.get("choreographed_task_rounds_clean", 0))
            if stats.get("choreographed_task_rounds_without_verdict", 0):
                res.inconclusive.append({"what": "choreographed task rounds in which context B's own task event did not arrive within 2 s", "rounds": stats["choreographed_task_rounds_without_verdict"], "cmd": replay["cmd"]})
        for l in other:
            if l.startswith("COVERED "):
                _c, role, name = l.split(" ", 2)
                covered.setdefault(role, set()).add(name)
    # alone vs concurrent
    ndiff = 0
    for key, d in ctxlines.items():
        if "alone" in d:
            for v in ("tsan", "asan"):
                if v in d:
                    ndiff += 1
                    if d[v] != d["alone"]:
                        res.violate("C14/context-interference", "seed/threads/steps %s: per-context counters of the concurrent %s run differ from the same contexts run one after the other: %s vs %s" % (key, v, [x for x in d[v] if x not in d["alone"]][:3], [x for x in d["alone"] if x not in d[v]][:3]), {"cmd": [exe_a, key]})
    res.counters["alone_vs_concurrent_pairs"] = ndiff
    # matrix coverage against the prototypes
    want = prototypes()
    for role, names in covered.items():
        missing = sorted(want - names)
        res.counters["matrix_entry_points_" + role] = len(names & want)
        if missing:
            res.inconclusive.append({"what": "foreign-call matrix does not cover these prototypes of mod.h (reduced coverage, not a verdict)", "role": role, "missing": missing})
    if not covered:
        raise RuntimeError("foreign-call matrix did not run")
    fw.finish(res, RULE, ASSUME)


def replay(path):
    import json, subprocess
    r = json.load(open(path))
    raise SystemExit(subprocess.call([str(x) for x in r["replay"]["cmd"]]))

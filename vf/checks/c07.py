"""C07 — context lifecycle: one per thread, teardown deregisters every module, auto-release, finalize gate."""
from vf import gen, corecheck as cc, framework as fw, model_ctx, model_lifecycle

RULE = ("ctx_lifecycle profile: 1-3 register/teardown cycles per process with every context flag combination, 0-6 modules in every "
        "state mix at teardown (idle, running, paused, stopped, persistent), a second m_ctx_register, finalize followed by a late "
        "registration, a dispatch-driven loop phase (deregistration while looping; last module leaving a looping context), teardown "
        "through m_ctx_deregister from the main script and from stop callbacks, through deregistration of the last module, replacement of the only module by a same-named one (the context stays), and calls "
        "on the context API and on retained module handles while the thread has no context - in half of the scenarios before the "
        "very first registration of the process. ctx_gone profile: no reference but the registration handles, the last module leaves inside the final flush / in the last step while looping / after the loop. Executed on the plain AND the asan build (the sanitizer runtime owns low thread-"
        "specific keys, which is what an uncreated key collides with). Oracle: vf/model_ctx.py state (exists, persistent, finalised) "
        "against the return codes and the context observed after every record; every module ZOMBIE after an accepted teardown, with "
        "exactly one stop callback for RUNNING/PAUSED ones (C01's pairing rules are applied to these traces too); allocations and "
        "descriptors at quiescence are C04's/C20's. non-trivial = scenario with an accepted context teardown holding >= 1 module or "
        "a refused call without context; distinct = hash of the trace")
ASSUME = ["m_ctx_name() != NULL is the observation of 'the thread has a context' (not available inside deny-ctx callbacks)", "vf/model_ctx.py", "VERIF_SEED"]


def run(tier):
    res = fw.Result("C07", tier)
    n = 500 if tier == "quick" else 20000
    seed = fw.seed()
    stats = {}
    for variant in ("plain", "asan"):
        cases = []
        for i in range(n if variant == "plain" else n // 3):
            s = seed * 1000003 + i
            x = i % 6
            if x == 5:
                sc, prof = gen.gen_ctx_gone(s), "ctx_gone"
            else:
                sc, prof = (gen.gen_ctxlife(s), "ctx_lifecycle") if x < 4 else (gen.gen_mixed(s, opts=dict(task_slots=[])), "mixed")
            c = cc.Case()
            c.sc, c.profile, c.mode, c.seed = sc, prof, ("loop" if i % 2 else "dispatch"), s
            cases.append(c)
        # module names sharing one probe chain of the context's module table: teardown module by module and as a whole
        for k in range((24 if tier == "quick" else 600) if variant == "plain" else 8):
            c = cc.Case()
            c.sc, c.profile, c.mode, c.seed = gen.gen_colliding_modules(seed * 1000 + k), "colliding_modules", ("loop" if k % 2 else "dispatch"), seed * 1000 + k
            cases.append(c)

        # teardown of the whole context whose stop callbacks try to start / resume their own module again
        for k in range((24 if tier == "quick" else 600) if variant == "plain" else 8):
            c = cc.Case()
            c.sc, c.profile, c.mode, c.seed = gen.gen_teardown_restart(seed * 1000 + k), "teardown_restart", ("loop" if k % 2 else "dispatch"), seed * 1000 + k
            cases.append(c)

        def oracle(case):
            v = model_ctx.check_c07(case, stats)
            if case.profile in ("ctx_lifecycle", "colliding_modules"):
                # teardown must stop running modules through their stop callback exactly once: C01's pairing clause
                v += [("C07/" + k.split("/", 1)[1], d) for k, d in model_lifecycle.check(case, None) if "stop-callback" in k or "stopped-without" in k]
            if case.profile == "teardown_restart":
                # ... and ZOMBIE is final: the whole lifecycle oracle (C01) judges these scenarios
                v += [("C07/" + k.split("/", 1)[1], d) for k, d in model_lifecycle.check(case, None)]
            return v

        def relevant(case):
            return any(r.k == "<" and r.op == "ctx_deregister" and r.ret == 0 for r in case.recs) or any(r.k == "<" and r.op in model_ctx.NEEDS_CTX and r.ret is not None and -1000 < r.ret < 0 for r in case.recs)
        cc.run_checked(res, cases, variant, oracle, relevant, "C07")
    res.counters.update(stats)
    fw.finish(res, RULE, ASSUME)


def replay(path):
    cc.replay_file(path)

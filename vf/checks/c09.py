"""C09 — per-module source registry behaves as keyed sets for every source kind (offline oracle, plain build)."""
from vf import gen, corecheck as cc, framework as fw, model_registry

RULE = ("[counts are also read per source kind; M_SRC_DUP descriptors are keyed by the descriptor registered; batch timeout and token bucket are set and cleared on the periods of the user's timers] "
        "oneshot_sub_replaced profile: a one-shot subscription fires (and leaves the set) - or was replaced while its message was in flight (the replacement stays). colliding_topics profile: subscriptions whose topics share one probe chain of the module's subscription table (also across the table end), unsubscribed and re-subscribed in every order. oneshot_rearm profile: a one-shot timer / signal fires and its handler counts, deregisters and registers the same key again. registry profile: 15-90 register/deregister calls per scenario over descriptors, timers (periods from 1 ns to 2^63-1 ns "
        "incl. pairs 2^32 / 2^31+7 apart), signals, paths, pids, tasks, thresholds (pairs with equal sums) and topic subscriptions, "
        "keys drawn from small colliding pools, on idle, running, paused and stopped modules, interleaved with pause/resume/stop/"
        "start, invalid parameter combinations, with and without loop runs (no event is ever produced, so the reference sets are "
        "exact). Oracle: new key -> 0, present key -> -EEXIST (subscription: updated in place), present key deregistered -> 0, "
        "absent -> < 0, task deregistration refused, invalid parameters refused; after every call m_mod_src_len() (observed after "
        "every record) equals the sum of the reference set sizes; sets survive pause/resume and loop restart and are empty after "
        "stop. non-trivial = scenario with a duplicate-key registration or an absent-key deregistration; distinct = hash of the trace")
ASSUME = ["a descriptor is registered by one module only (precondition, DESIGN.md §2)", "M_SRC_DUP descriptor sources are keyed by the "
          "library's duplicate: deregistration by the user's number is accepted either way", "pid/path/running-task registrations may be "
          "refused by the poll layer: then only 'no trace' is required", "vf/model_registry.py", "VERIF_SEED"]


def run(tier):
    res = fw.Result("C09", tier)
    n = 600 if tier == "quick" else 25000
    seed = fw.seed()
    stats = {}
    cases = []
    for i in range(n):
        s = seed * 1000003 + i
        sc = gen.gen_registry(s)
        c = cc.Case()
        c.sc, c.profile, c.mode, c.seed = sc, "registry", ("loop" if i % 2 else "dispatch"), s
        cases.append(c)

    for k in range(16 if tier == "quick" else 400):
        c = cc.Case()
        c.sc, c.profile, c.mode, c.seed = gen.gen_registry_last_token(seed * 1000 + k), "registry_last_token", ("loop" if k % 2 else "dispatch"), seed * 1000 + k
        cases.append(c)

    for k in range(24 if tier == "quick" else 600):
        c = cc.Case()
        c.sc, c.profile, c.mode, c.seed = gen.gen_oneshot_rearm(seed * 1000 + k), "oneshot_rearm", ("loop" if k % 2 else "dispatch"), seed * 1000 + k
        cases.append(c)

    for k in range(24 if tier == "quick" else 600):
        c = cc.Case()
        c.sc, c.profile, c.mode, c.seed = gen.gen_colliding_topics(seed * 1000 + k), "colliding_topics", ("loop" if k % 2 else "dispatch"), seed * 1000 + k
        cases.append(c)

    for k in range(24 if tier == "quick" else 600):
        c = cc.Case()
        c.sc, c.profile, c.mode, c.seed = gen.gen_oneshot_sub_replaced(seed * 1000 + k), "oneshot_sub_replaced", ("loop" if k % 2 else "dispatch"), seed * 1000 + k
        cases.append(c)

    for k in range(16 if tier == "quick" else 400):
        c = cc.Case()
        c.sc, c.profile, c.mode, c.seed = gen.gen_resub_dup(seed * 1000 + k), "resub_dup", ("loop" if k % 2 else "dispatch"), seed * 1000 + k
        cases.append(c)

    def oracle(case):
        return model_registry.check_c09(case, stats)

    def relevant(case):
        return any(r.k == "<" and r.ret == -17 for r in case.recs) or any(r.k == "<" and r.op and r.op.endswith("_dereg") and r.ret is not None and -1000 < r.ret < 0 for r in case.recs)
    cc.run_checked(res, cases, "plain", oracle, relevant, "C09")
    res.counters.update(stats)
    fw.finish(res, RULE, ASSUME)


def replay(path):
    cc.replay_file(path)

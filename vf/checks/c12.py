"""C12 — queue/stack/list vs array models: exhaustive short programs + random long ones, ASan+UBSan."""
from vf import build, framework as fw

RULE = ("all programs up to length L over a 16-letter alphabet (add, add-dup-key, take/remove, remove, peek/find, clear, "
        "iterator walks removing first/last/middle/all, set at last, remove-twice at last, list insert at first/last, "
        "insert+remove everywhere, plain walk) x {queue,stack,list,list+comparator,list+never-equal comparator} x {destructor, none} are enumerated "
        "(L=5 quick, 6 thorough); then random programs with random per-position iterator actions. After every op the "
        "container is dumped and compared with an array model; destructor calls are compared by element identity. "
        "distinct_nontrivial counts random programs containing an iterator walk (hash of op/length sequence) plus "
        "1/1024 sampled exhaustive programs")
ASSUME = ["harness/structs_lqs.c array models", "insertion position of m_list_insert and the re-yield of the old current "
          "element after m_list_itr_insert are not specified by the property: learned from the container / both accepted",
          "ASan/UBSan runtime; accounting allocator sees every allocation", "VERIF_SEED selects the random programs"]


def run(tier):
    res = fw.Result("C12", tier)
    exe = build.build_harness("structs_lqs", "asan", ["structs_lqs.c"])
    s = fw.seed()
    args = []
    if tier == "quick":
        L, nrand, maxops = 5, 1500, 300
        for sl in range(10):
            args.append([s * 7919 + sl, L, nrand, maxops, sl])
    else:
        L, nrand, maxops = 6, 6000, 1500
        for sl in range(10):
            for fl in range(16):
                args.append([s * 7919 + sl * 16 + fl, L, nrand, maxops, sl, fl])
    fw.run_harness_parallel(res, exe, args, timeout=3600, key_prefix="C12")
    exe_p = build.build_harness("structs_lqs", "plain", ["structs_lqs.c"])
    margs = [[s * 104729 + sl, 3, 100 if tier == "quick" else 1000, 300, sl] for sl in range(10)]
    fw.run_harness_parallel(res, exe_p, margs, timeout=3600, key_prefix="C12", wrapper=fw.MEMCHECK)
    res.count("memcheck_processes", len(margs))
    res.evaluations = res.counters.get("exhaustive_programs", 0) + res.counters.get("random_programs", 0)
    fw.finish(res, RULE, ASSUME, extra_cov={"exhaustive_subspace": "all programs of length <= %d over the 16-letter alphabet, 10 container flavours" % L})


def replay(path):
    import json, subprocess
    r = json.load(open(path))
    raise SystemExit(subprocess.call(r["replay"]["cmd"]))

"""C10 — ref-counted blocks: refcount model inside the harness + accounting allocator, under ASan+UBSan."""
from vf import build, framework as fw

RULE = ("[two allocators are configured alternately through m_set_memhook between sequences: every block must come from and go back to the one configured then; every third destructor takes and drops a reference on the block it destroys; sizes SIZE_MAX-k must be refused] "
        "every size 0..4096 with and without destructor is created, written, referenced and released "
        "(exhaustive sub-space); then random sequences of new/ref/unref/unrefp/size/NULL-calls/ownership edges "
        "(nested destructors releasing other blocks) on up to 48 blocks; a sequence is non-trivial when at least "
        "one block held >1 reference or a destructor released other blocks; distinct = hash of the op/refcount sequence")
ASSUME = ["gcc AddressSanitizer/UBSan runtime judges the bounds of every write into a block",
          "the accounting allocator installed with m_set_memhook sees every allocator call of the library",
          "harness/mem_blocks.c model (refcount table) is correct", "VERIF_SEED selects the sequences"]


def run(tier):
    res = fw.Result("C10", tier)
    exe = build.build_harness("mem_blocks", "asan", ["mem_blocks.c"])
    s = fw.seed()
    if tier == "quick":
        nproc, nseq, maxops = 16, 1500, 200
    else:
        nproc, nseq, maxops = 16, 40000, 400
    args = [[s * 7919 + i, nseq, maxops, 4096 if i == 0 else -1] for i in range(nproc)]
    fw.run_harness_parallel(res, exe, args, timeout=1800, key_prefix="C10")
    res.evaluations = res.counters.get("sequences", 0) + res.counters.get("sizes_swept", 0)
    # second opinion (uninitialised reads are invisible to ASan): a slice of fresh sequences on the plain build under memcheck
    exe_p = build.build_harness("mem_blocks", "plain", ["mem_blocks.c"])
    margs = [[s * 104729 + i, 150 if tier == "quick" else 1500, 200, -1] for i in range(2 if tier == "quick" else 16)]
    fw.run_harness_parallel(res, exe_p, margs, timeout=3600, key_prefix="C10", wrapper=fw.MEMCHECK)
    res.count("memcheck_processes", len(margs))
    fw.finish(res, RULE, ASSUME,
              extra_cov={"exhaustive_subspace": "sizes 0..4096 x {dtor,no dtor}: alignment, size, full write, ref/unref/unref"})


def replay(path):
    import json, subprocess
    r = json.load(open(path))
    raise SystemExit(subprocess.call(r["replay"]["cmd"]))

"""C01 — module lifecycle state machine, callback pairing, evaluation pass, running count (offline oracle over
traces of generated lifecycle programs, plain build)."""
from vf import gen, corecheck as cc, framework as fw, model_lifecycle

RULE = ("start_refused_by_source profile: the start of an IDLE / STOPPED module fails because one of its sources (a regular file) cannot be polled - the refused call changes nothing. pause_others_in_batch profile: 3-5 modules with mail in one poll batch, the handler served first pauses / stops / deregisters all the others. lifecycle profile: 2-6 modules with random names/hook sets, scripted eval/start results (incl. false evaluations ahead "
        "of true ones in table order), every lifecycle call from outside the loop, between dispatches and re-entrantly from "
        "eval/start/stop/event callbacks, late registrations, poison pills; both driving modes plus the dispatch-only style where "
        "steps run between m_ctx_dispatch() calls (every such call ends with an evaluation pass). The oracle walks the dense "
        "state observations (after every call and at every callback boundary) and requires: each change is a documented edge "
        "with its cause in progress; illegal (state,call) pairs fail without effect; start/stop callbacks coincide 1:1 with "
        "entries into RUNNING / stops; no handler for a non-RUNNING module; every IDLE module is evaluated/started by a pass "
        "(deferred by one pass when the registry changed); running_modules == #RUNNING. non-trivial = scenario with >= 3 "
        "observed state changes; distinct = hash of the timestamp-free trace")
ASSUME = ["observations use only public getters (m_mod_state, m_ctx_stats)", "tolerated: on_stop when an IDLE/STOPPED module is "
          "deregistered; legal calls that fail (token bucket, deny flags)", "a pass whose following pass also changes the registry "
          "is not judged (lenient reading of 'at the latest in the following pass')", "harness/core_exec.c, vf/model_lifecycle.py", "VERIF_SEED"]


def run(tier):
    res = fw.Result("C01", tier)
    n = 600 if tier == "quick" else 30000
    seed = fw.seed()
    stats = {}
    cases = []
    for i in range(n):
        s = seed * 1000003 + i
        sc = gen.gen_lifecycle(s)
        modes = ["dispatch"] if sc.meta.get("style") in ("main", "main_nokick") else ["loop", "dispatch"]
        for m in modes:
            c = cc.Case()
            c.sc, c.profile, c.mode, c.seed = sc, "lifecycle", m, s
            cases.append(c)

    for k in range(16 if tier == "quick" else 400):
        for g, prof in ((gen.gen_restart_while_leaving, "restart_while_leaving"), (gen.gen_paused_with_batch_at_quit, "paused_with_batch_at_quit"), (gen.gen_start_refused_by_source, "start_refused_by_source")):
            c = cc.Case()
            c.sc, c.profile, c.mode, c.seed = g(seed * 1000 + k), prof, ("loop" if k % 2 else "dispatch"), seed * 1000 + k
            cases.append(c)

    for k in range(20 if tier == "quick" else 400):
        sc = gen.gen_pause_others_in_batch(seed * 1000 + k)
        for m in ("loop", "dispatch"):
            c = cc.Case()
            c.sc, c.profile, c.mode, c.seed = sc, "pause_others_in_batch", m, seed * 1000 + k
            cases.append(c)

    def oracle(case):
        return model_lifecycle.check(case, stats)

    def relevant(case):
        n_changes = 0
        last = {}
        for r in case.recs:
            if r.k == "S":
                for m, (l, _x) in r.states.items():
                    if last.get(m) != l:
                        n_changes += 1
                        last[m] = l
        return n_changes >= 3
    cc.run_checked(res, cases, "plain", oracle, relevant, "C01")
    res.counters["edges_seen"] = {"%s->%s" % k: v for k, v in sorted(stats.get("edges", {}).items(), key=str)}
    res.counters["illegal_state_call_pairs_seen"] = {"%s/%s" % k: v for k, v in sorted(stats.get("illegal_pairs", {}).items(), key=str)}
    res.counters["evaluation_passes_judged"] = stats.get("passes", 0)
    res.counters["false_evaluations_in_judged_passes"] = stats.get("false_evals", 0)
    fw.finish(res, RULE, ASSUME)


def replay(path):
    cc.replay_file(path)

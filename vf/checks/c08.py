"""C08 — per-recipient delivery order and poison pill ordering (offline oracle over messaging traces, plain build)."""
from vf import gen, corecheck as cc, framework as fw, model_pubsub

RULE = ("ordering profile (several senders, batching settings, pause/resume of the recipient, poison pills with traffic before and "
        "after, sends immediately followed by quit, up to three loop runs per scenario) plus the messaging profile; pill_paused_restart, pill_pause_in_batch (pill behind accumulated events whose handler pauses the module) batch_then_mail_at_quit (accumulated events + unread mail at loop stop) and full_mailbox (8193-9000 messages told to one module while its mailbox fills up: whatever is delivered keeps send order) profiles; both driving modes. "
        "Unique payload tokens make the check a linear scan per recipient: a first-time delivery whose send interval ended before "
        "the send interval of an earlier delivered message began is a reordering (stash replays, identified by their nesting inside "
        "m_mod_unstash, are excluded); nothing sent after an accepted pill may be delivered before the recipient left RUNNING; when a "
        "pill stops its recipient every earlier message to it (recipient RUNNING at send, not batching/low-priority) must already "
        "have been delivered. non-trivial = scenario in which some module received >= 3 messages; distinct = hash of the trace")
ASSUME = ["send order is the order of non-overlapping API call intervals in the single-threaded trace", "harness/core_exec.c, vf/model_pubsub.py", "VERIF_SEED"]


def run(tier):
    res = fw.Result("C08", tier)
    n = 500 if tier == "quick" else 20000
    seed = fw.seed()
    stats = {}
    cases = []
    for i in range(n):
        s = seed * 1000003 + i
        sc, prof = (gen.gen_ordering(s), "ordering") if i % 3 else (gen.gen_messaging(s), "messaging")
        for m in ("loop", "dispatch"):
            c = cc.Case()
            c.sc, c.profile, c.mode, c.seed = sc, prof, m, s
            cases.append(c)

    for k in range(16 if tier == "quick" else 400):
        sc = gen.gen_pill_paused_restart(seed * 1000 + k)
        for m in ("loop", "dispatch"):
            c = cc.Case()
            c.sc, c.profile, c.mode, c.seed = sc, "pill_paused_restart", m, seed * 1000 + k
            cases.append(c)

    for k in range(16 if tier == "quick" else 400):
        sc = gen.gen_pill_pause_in_batch(seed * 1000 + k)
        for m in ("loop", "dispatch"):
            c = cc.Case()
            c.sc, c.profile, c.mode, c.seed = sc, "pill_pause_in_batch", m, seed * 1000 + k
            cases.append(c)
    for k in range(16 if tier == "quick" else 400):
        sc = gen.gen_batch_then_mail_at_quit(seed * 1000 + k)
        for m in ("loop", "dispatch"):
            c = cc.Case()
            c.sc, c.profile, c.mode, c.seed = sc, "batch_then_mail_at_quit", m, seed * 1000 + k
            cases.append(c)

    # more than 8192 messages told to one module (paused or running): what is delivered arrives in send order
    for k in range(6 if tier == "quick" else 100):
        c = cc.Case()
        c.sc, c.profile, c.mode, c.seed = gen.gen_full_mailbox_broadcast(seed * 1000 + k), "full_mailbox", ("loop" if k % 2 else "dispatch"), seed * 1000 + k
        cases.append(c)

    def oracle(case):
        return model_pubsub.check_c08(case, stats)

    def relevant(case):
        cnt = {}
        for r in case.recs:
            if r.k == "V" and r.kind == "ps" and r.fields.get("sys") == "0":
                cnt[r.slot] = cnt.get(r.slot, 0) + 1
        return any(v >= 3 for v in cnt.values())
    cc.run_checked(res, cases, "plain", oracle, relevant, "C08")
    res.counters.update(stats)
    fw.finish(res, RULE, ASSUME)


def replay(path):
    cc.replay_file(path)

"""C11 — ordered set vs sorted-array model: all permutations of K keys x every removal / iterator-removal, + random."""
from vf import build, framework as fw

RULE = ("for K=1..Kmax every insertion order (permutation) of K keys is built, then one variant is applied: nothing, remove "
        "of each key, iterator-removal at each position, and (K<=6) every subset of iterator-removal positions; each x "
        "{user comparator, default pointer comparator with fake addresses 1.5*2^32 apart} x {destructor, none}; "
        "in-order must equal the ascending model, post-order must equal the post-order of the tree rebuilt from (pre,in); "
        "destructor log compared by argument identity. Then random programs (insert/remove/find/clear/iterator walks with "
        "removal) with pointer keys up to 2^47 apart incl. differences k*2^32 and >2^31. distinct_nontrivial = random "
        "programs containing a removal (hash of op/size sequence) + 1/256 sampled permutation cases")
ASSUME = ["harness/structs_bst.c sorted-array model", "fake pointers are never dereferenced by the library (no destructor "
          "dereference, default comparator compares addresses only)", "ASan/UBSan; accounting allocator", "VERIF_SEED"]


def run(tier):
    res = fw.Result("C11", tier)
    exe = build.build_harness("structs_bst", "asan", ["structs_bst.c"])
    s = fw.seed()
    args = []
    if tier == "quick":
        K, nrand, maxops = 7, 1500, 400
        for sl in range(4):
            for k in range(1, K + 1):
                args.append([s * 7919 + sl * 16 + k, K, nrand if k == K else 0, maxops, sl, k])
    else:
        K, nrand, maxops = 8, 12000, 600
        for sl in range(4):
            for k in range(1, K + 1):
                args.append([s * 7919 + sl * 16 + k, K, nrand, maxops, sl, k])
    fw.run_harness_parallel(res, exe, args, timeout=3600, key_prefix="C11")
    exe_p = build.build_harness("structs_bst", "plain", ["structs_bst.c"])
    margs = [[s * 104729 + sl, 5, 100 if tier == "quick" else 1200, 300, sl, 5] for sl in range(4)]
    fw.run_harness_parallel(res, exe_p, margs, timeout=3600, key_prefix="C11", wrapper=fw.MEMCHECK)
    res.count("memcheck_processes", len(margs))
    res.evaluations = res.counters.get("permutation_cases", 0) + res.counters.get("random_programs", 0)
    fw.finish(res, RULE, ASSUME, extra_cov={"exhaustive_subspace": "all permutations of K<=%d keys x single removals x iterator-removal positions (all subsets for K<=6)" % K})


def replay(path):
    import json, subprocess
    r = json.load(open(path))
    raise SystemExit(subprocess.call(r["replay"]["cmd"]))

"""C20 — descriptor hygiene: link-time wrapped close()/open ledger + /proc/self/fd at quiescence (plain build)."""
from vf import gen, corecheck as cc, framework as fw, model_fd

RULE = ("[M_SRC_DUP registrations are tracked too: auto-close is about the user's descriptor, the duplicate is the library's] "
        "sources, hostile-lifetime, registry, mixed, tick_in_flush, loop_start_callbacks (tick configured by a callback the loop start runs) and path_gone (path sources whose directory was removed before they are (re-)added to the poll set) profiles with every mix of auto-close / duplicate / one-shot flags, modules "
        "leaving by stop, poison pill, refused start, self-deregistration and context teardown, one-shot events retained past their "
        "source, rejected registrations carrying auto-close. close(), pipe(), dup(), epoll_create1(), timerfd_create(), signalfd(), "
        "inotify_init1(), eventfd() and syscall(pidfd_open) are wrapped at link time for the library objects: every library close "
        "is judged against the ledger (library-owned and open | user-owned with a released auto-close registration, once | "
        "anything else is a violation: not open, foreign, user descriptor without auto-close, too early, twice) and at the quiescent "
        "point (context gone, all references dropped) /proc/self/fd must hold nothing the library opened and every auto-close "
        "descriptor whose source is gone must have been closed. non-trivial = scenario with a library close of a user descriptor or "
        ">= 6 library descriptors opened; distinct = hash of the trace")
ASSUME = ["descriptors opened by libc internals are outside the ledger", "a user descriptor is registered by one module only (precondition)",
          "harness/core_exec.c ledger, vf/model_fd.py", "VERIF_SEED"]


def run(tier):
    res = fw.Result("C20", tier)
    n = 600 if tier == "quick" else 25000
    seed = fw.seed()
    stats = {}
    cases = []
    for i in range(n):
        s = seed * 1000003 + i
        x = i % 6
        if x in (0, 1):
            sc, prof = gen.gen_sources(s), "sources"
        elif x == 2:
            sc, prof = gen.gen_hostile(s), "hostile_lifetime"
        elif x == 3:
            sc, prof = gen.gen_registry(s), "registry"
        else:
            sc, prof = gen.gen_mixed(s, opts=dict(p_oneshot=0.3)), "mixed"
        c = cc.Case()
        c.sc, c.profile, c.mode, c.seed = sc, prof, ("loop" if (i // 6) % 2 == 0 else "dispatch"), s
        cases.append(c)

    for k in range(max(10, n // 30)):
        c = cc.Case()
        c.sc, c.profile, c.mode, c.seed = gen.gen_tick_in_flush(seed * 100 + k), "tick_in_flush", ("loop" if k % 2 else "dispatch"), seed * 100 + k
        cases.append(c)

    for k in range(max(16, n // 50)):
        c = cc.Case()
        c.sc, c.profile, c.mode, c.seed = gen.gen_loop_start_callbacks(seed * 100 + k), "loop_start_callbacks", ("loop" if k % 2 else "dispatch"), seed * 100 + k
        cases.append(c)

    for k in range(max(16, n // 50)):
        c = cc.Case()
        c.sc, c.profile, c.mode, c.seed = gen.gen_path_gone(seed * 100 + k), "path_gone", ("loop" if k % 2 else "dispatch"), seed * 100 + k
        cases.append(c)

    def oracle(case):
        return model_fd.check_c20(case, stats)

    def relevant(case):
        return any(r.k == "X" and r.kind == "close" and r.fields.get("cls") == "user" for r in case.recs) or sum(1 for r in case.recs if r.k == "O") >= 6
    cc.run_checked(res, cases, "plain", oracle, relevant, "C20")
    res.counters.update(stats)
    fw.finish(res, RULE, ASSUME)


def replay(path):
    cc.replay_file(path)

"""C05 — map vs linear reference dictionary, adversarial key sets (same home slot, wrap-around clusters, growth)."""
from vf import build, framework as fw

RULE = ("random sequences of put/get/contains/remove/len/iterate-callback (with removal of the current entry, early stop)/"
        "iterator walks (get_key/get_data/remove/set)/clear/free over 7 flag combinations x {value destructor, none} on 6 key "
        "populations: random small, bulk-loaded up to ~1100 keys (1-3 table growths), keys sharing one home slot, clusters "
        "homed on slots 253..255+0..2 that wrap the table end, wrap + random, one probe chain of 100-170 consecutive home slots plus displaced keys (longer than half the table). Every return value/pointer/len, every "
        "destructor call (by value identity), the allocator balance of each op (private key copies) and exactly-once "
        "visiting are compared with a linear dictionary. distinct_nontrivial = sequences with an editing iteration "
        "(hash of op/len sequence)")
ASSUME = ["harness/structs_map.c linear dictionary model", "adversarial keys are mined with a copy of the hash that is "
          "cross-validated at run time against iteration order (hash_copy_valid counter); if stale the adversarial populations are skipped and reported",
          "ownership of a caller-allocated key on refused/updating put in KEY_AUTOFREE maps is unspecified: not generated",
          "whether m_map_itr_set_data destroys the replaced value is unspecified: both accepted", "ASan/UBSan; accounting allocator", "VERIF_SEED"]


def run(tier):
    res = fw.Result("C05", tier)
    exe = build.build_harness("structs_map", "asan", ["structs_map.c"])
    s = fw.seed()
    if tier == "quick":
        nproc, nseq, maxops = 16, 200, 300
    else:
        nproc, nseq, maxops = 48, 500, 400
    args = [[s * 7919 + i, nseq, maxops] for i in range(nproc)]
    outs = fw.run_harness_parallel(res, exe, args, timeout=7200, key_prefix="C05")
    exe_p = build.build_harness("structs_map", "plain", ["structs_map.c"])
    margs = [[s * 104729 + i, 12 if tier == "quick" else 120, 300] for i in range(4 if tier == "quick" else 16)]
    outs += fw.run_harness_parallel(res, exe_p, margs, timeout=3600, key_prefix="C05", wrapper=fw.MEMCHECK)
    res.count("memcheck_processes", len(margs))
    res.evaluations = res.counters.get("sequences", 0)
    if res.counters.get("hash_copy_valid", 0) != len(args) + len(margs):
        res.inconclusive.append({"what": "adversarial key mining disabled: hash copy stale"})
        if res.counters.get("wrap_cluster_sequences", 0) == 0:
            print("INCONCLUSIVE: adversarial part not exercised")
    fw.finish(res, RULE, ASSUME)


def replay(path):
    import json, subprocess
    r = json.load(open(path))
    raise SystemExit(subprocess.call(r["replay"]["cmd"]))

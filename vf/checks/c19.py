"""C19 — system notifications mirror loop and module transitions one-to-one (offline oracle, plain build)."""
from vf import gen, corecheck as cc, framework as fw, model_pubsub

RULE = ("sysnotif profile: 2-5 modules subscribing (literal, some catch-all regex) to the five system topics before and during "
        "1-3 loop runs while the other modules are started, paused, resumed, stopped, pilled and deregistered from every place; "
        "optional context tick; both driving modes; tick_rearm profile: the tick is re-configured inside the running loop (1-2 ms -> 40-100 ms, "
        "optionally off in between) and the run then lasts 20-30 ms of real time; flush_many_changes profile: 4-9 subscribers of the loop-stopped notification whose handlers, run by the final flush, register / deregister modules other than their own (several changes of the module table during one flush); paused_subscriber profile: the subscriber is PAUSED when the loop starts / "
        "when the last running module stops and is resumed before the run ends. Soundness: per recipient the n-th notification (topic, named module) must be "
        "preceded by >= n observed occurrences of that transition / loop event, carries no payload, loop notifications name nobody, "
        "the internal poison pill is never handed over; tick count <= elapsed/period + 1 per arming. Completeness (clean cases "
        "only): a module that held a literal normal-priority subscription and was RUNNING or PAUSED at the occurrence, never left {RUNNING, PAUSED} and was RUNNING when the run ended received the "
        "notification of every confirmed start / stop of another module and of loop start/stop. non-trivial = scenario with a "
        "delivered system notification; distinct = hash of the trace")
ASSUME = ["a module's notification about its own transition and a started notification for a refused start are tolerated either way",
          "transitions are the module state changes observed through m_mod_state() at every call/callback boundary",
          "vf/model_pubsub.py check_c19", "VERIF_SEED"]


def run(tier):
    res = fw.Result("C19", tier)
    n = 500 if tier == "quick" else 15000
    seed = fw.seed()
    stats = {}
    cases = []
    for i in range(n):
        s = seed * 1000003 + i
        sc = gen.gen_sysnotif(s)
        for m in ("loop", "dispatch"):
            c = cc.Case()
            c.sc, c.profile, c.mode, c.seed = sc, "sysnotif", m, s
            cases.append(c)

    for k in range(24 if tier == "quick" else 400):
        c = cc.Case()
        c.sc, c.profile, c.mode, c.seed = gen.gen_tick_rearm(seed * 1000 + k), "tick_rearm", ("loop" if k % 2 else "dispatch"), seed * 1000 + k
        cases.append(c)

    for k in range(16 if tier == "quick" else 300):
        c = cc.Case()
        c.sc, c.profile, c.mode, c.seed = gen.gen_paused_subscriber(seed * 1000 + k), "paused_subscriber", "dispatch", seed * 1000 + k
        cases.append(c)

    for k in range(24 if tier == "quick" else 600):
        c = cc.Case()
        c.sc, c.profile, c.mode, c.seed = gen.gen_flush_many_changes(seed * 1000 + k), "flush_many_changes", ("loop" if k % 2 else "dispatch"), seed * 1000 + k
        cases.append(c)

    def oracle(case):
        return model_pubsub.check_c19(case, stats)

    def relevant(case):
        return any(r.k == "V" and r.kind == "ps" and r.fields.get("sys") == "1" for r in case.recs)
    cc.run_checked(res, cases, "plain", oracle, relevant, "C19")
    res.counters.update(stats)
    fw.finish(res, RULE, ASSUME)


def replay(path):
    cc.replay_file(path)

"""C15 — unique names / allow-replace, deny flags, persist, reserved topic prefix (offline oracle, plain build)."""
from vf import gen, corecheck as cc, framework as fw, model_perm

RULE = ("perms profile: 3-7 modules over 4 names with random subsets of DENY_CTX / DENY_PUB / DENY_SUB / PERSIST / ALLOW_REPLACE, "
        "registrations of equal names in every order (before the loop, from driver steps, from callbacks), restricted calls (sends, "
        "pills, (un)subscriptions, every m_ctx_* entry point incl. quit and tick, deregistration of persistent modules, publishing "
        "on LIBMODULE_* topics) issued from eval/start/stop/event callbacks at nesting depth up to 3; colliding_modules profile: 3-5 modules whose names share one probe chain of the context's module table (same slot, neighbouring slots, across the table end), removed from the front / middle / end, looked up by name, registered again; loop_start_callbacks profile: the evaluation / start callback that the loop start runs for an IDLE module deregisters a persistent module; both modes. Oracle: duplicate "
        "live name -> -EEXIST unless the incumbent allows replacement (then it is ZOMBIE afterwards); deny-pub sends fail and their "
        "payload is never delivered; deny-sub calls fail and leave the source count unchanged; context calls issued from a callback "
        "of a deny-ctx module fail and a refused quit does not end the loop; persistent modules survive direct deregistration while "
        "looping; reserved-prefix publishes are refused and never delivered. non-trivial = scenario with >= 2 restricted calls "
        "judged; distinct = hash of the trace")
ASSUME = ["module-level calls from a deny-ctx module's callback all fail today (the handle check uses the denied lookup): neither demanded nor forbidden",
          "vf/model_perm.py", "VERIF_SEED"]


def run(tier):
    res = fw.Result("C15", tier)
    n = 500 if tier == "quick" else 15000
    seed = fw.seed()
    stats = {}
    cases = []
    for i in range(n):
        s = seed * 1000003 + i
        sc = gen.gen_perms(s)
        for m in ("loop", "dispatch"):
            c = cc.Case()
            c.sc, c.profile, c.mode, c.seed = sc, "perms", m, s
            cases.append(c)
    for k in range(16 if tier == "quick" else 400):
        sc = gen.gen_loop_start_callbacks(seed * 1000 + k)
        for m in ("loop", "dispatch"):
            c = cc.Case()
            c.sc, c.profile, c.mode, c.seed = sc, "loop_start_callbacks", m, seed * 1000 + k
            cases.append(c)
    for k in range(24 if tier == "quick" else 600):
        sc = gen.gen_colliding_modules(seed * 1000 + k)
        for m in ("loop", "dispatch"):
            c = cc.Case()
            c.sc, c.profile, c.mode, c.seed = sc, "colliding_modules", m, seed * 1000 + k
            cases.append(c)
    judged = {}

    def oracle(case):
        before = sum(stats.values())
        v = model_perm.check_c15(case, stats)
        judged[id(case)] = sum(stats.values()) - before
        return v

    def relevant(case):
        return judged.get(id(case), 0) >= 2
    cc.run_checked(res, cases, "plain", oracle, relevant, "C15")
    res.counters.update(stats)
    fw.finish(res, RULE, ASSUME)


def replay(path):
    cc.replay_file(path)

"""Run core_exec scenarios in parallel; one process per scenario (isolation: a crash kills one case only)."""
import os
import shutil
import tempfile
from concurrent.futures import ThreadPoolExecutor
from vf import build, framework as fw

WRAP = ["-Wl,--wrap=close,--wrap=pipe,--wrap=dup,--wrap=epoll_create1,--wrap=timerfd_create,--wrap=signalfd,"
        "--wrap=inotify_init1,--wrap=eventfd,--wrap=syscall"]


def exe(variant):
    extra = ["-DVF_NO_LEDGER"] if variant == "tsan" else []
    return build.build_harness("core_exec", variant, ["core_exec.c"], extra_flags=extra, extra_link=WRAP)


class Run:
    __slots__ = ("text", "rc", "trace", "err", "dt", "tag", "variant")


def run_many(texts, variant="plain", timeout=120, tags=None, env_extra=None):
    # "memcheck" = the plain build run under valgrind memcheck (uninitialised reads, which the red-zone tools cannot see)
    if variant == "memcheck":
        x = exe("plain")
        cmd = ["valgrind", "-q", "--error-exitcode=95", "--leak-check=no", "--num-callers=24", x]
    else:
        x = exe(variant)
        cmd = [x]

    def one(i):
        rc, out, err, dt = fw.run_proc(cmd, timeout, env_extra=env_extra, stdin_data=texts[i].encode())
        r = Run()
        r.text, r.rc, r.trace, r.err, r.dt, r.variant = texts[i], rc, out, err, dt, variant
        r.tag = tags[i] if tags else i
        return r
    scratch = tempfile.mkdtemp(prefix="vfce_")
    env_extra = dict(env_extra or {}, VF_SCRATCH=scratch)
    try:
        with ThreadPoolExecutor(fw.NPROC) as ex:
            return list(ex.map(one, range(len(texts))))
    finally:
        shutil.rmtree(scratch, ignore_errors=True)

"""C03 oracle: events reach the module that registered their source, with its user data; one-shot sources fire
at most once; conservation for harness-produced descriptor events; the loop ends only for the stated reasons and
returns the requested code; blocking loop and dispatch loop deliver the same things."""
from vf.model_common import resolve_slots, executed, Facts

SRC_LOW, SRC_NORM, SRC_HIGH, SRC_AUTOFREE, SRC_ONESHOT, SRC_DUP = 1, 2, 4, 8, 16, 32
KIND_OF = {"fd_reg": "fd", "tmr_reg": "tmr", "sgn_reg": "sgn", "task_reg": "task", "path_reg": "path", "pid_reg": "pid", "thresh_reg": "thresh"}
DEREG_OF = {"fd_dereg": "fd", "tmr_dereg": "tmr", "sgn_dereg": "sgn", "path_dereg": "path", "pid_dereg": "pid", "thresh_dereg": "thresh"}


def _key_of(op, args):
    k = KIND_OF.get(op) or DEREG_OF.get(op)
    if k == "thresh":
        return (args[1], args[2])
    return args[1]


def _flags_ud(op, args):
    if op == "thresh_reg":
        return args[3], args[4]
    return args[2], args[3]


def _evt_key(r):
    f = r.fields
    if r.kind == "fd":
        return int(f.get("idx", -9))
    if r.kind == "tmr":
        return int(f.get("ns", -1))
    if r.kind == "sgn":
        return int(f.get("signo", -1))
    if r.kind == "task":
        return int(f.get("tid", -1))
    if r.kind == "path":
        return int(f.get("idx", -1))
    if r.kind == "pid":
        return int(f.get("idx", -1))
    return None


def check_c03(case, stats=None, conservation=False):
    recs = case.recs
    resolve_slots(recs)
    F = Facts(case.sc)
    V = []

    def bad(key, msg, r=None):
        V.append(("C03/" + key, msg + ((" (trace line %d: %s)" % (r.i, r.raw[:110])) if r is not None else "")))

    st = {}
    reg = {}            # (module, kind, key) -> dict(flags, ud, since, fired)
    ever = {}           # (module, kind, key) -> set of ud tokens ever registered
    subs_ud = {}        # module -> set of ud tokens of its subscriptions ever made
    oneshot_subs, oneshot_fired = {}, {}
    calls = {}
    loop_calls = []     # stack of open loop/dispatch calls
    quits = []          # (index, code) accepted quits
    looping = False
    writes = {}         # ufd idx -> list of indexes of accepted writes
    fd_events = {}      # (module, ufd idx) -> list of indexes
    disturbed = set()   # (module) whose state left R during the current loop run
    run_begin = None
    batch_hist = stats.setdefault("batch_sizes", {}) if stats is not None else {}
    unstash = 0
    disp_looping = False
    # an accepted quit request ends the run: the blocking loop starts no further poll batch (so no level-triggered descriptor
    # is reported twice after it), the dispatch call following the one that accepted it stops the loop
    quit_fd_seen = {}   # (module, idx, ud) -> reports since the quit was accepted (loop mode)
    quit_pending_dispatch = None     # index of the accepted quit awaiting the next top-level dispatch call
    quit_flagged = [False]
    loop_mode = case.mode == "loop"

    def end_of_run(idx, ret, kind):
        """loop run ended at record idx returning ret"""
        nonlocal quits
        # state right after
        after = dict(st)
        j = idx + 1
        if j < len(recs) and recs[j].k == "S":
            after = {m: l for m, (l, _x) in recs[j].states.items()}
        if quits:
            code = quits[-1][1] & 0xff
            if ret != code:
                bad("wrong-return-code", "loop run ended returning %s although the last accepted m_ctx_quit requested %d" % (ret, code), recs[idx])
        else:
            running = [m for m, l in after.items() if l == "R"]
            if running:
                bad("loop-ended-without-reason", "loop run ended (returned %s) although no quit was requested and modules %s are still RUNNING - callbacks' errno or other process state must not end the loop" % (ret, running), recs[idx])
            elif ret != 0:
                bad("wrong-return-code", "loop run ended because no module is running but returned %s" % ret, recs[idx])
        quits = []
        quit_fd_seen.clear()

    for r in recs:
        if r.k == "S":
            for m, (l, _x) in r.states.items():
                if st.get(m) != l:
                    if l in ("S", "Z"):
                        for k in [k for k in reg if k[0] == m]:
                            del reg[k]
                    if st.get(m) == "R" and l != "R":
                        disturbed.add(m)
                    st[m] = l
            for m in list(st):
                if m not in r.states:
                    del st[m]
            if r.ctx.get("loop") in ("0", "1"):
                nl = r.ctx["loop"] == "1"
                if nl and not looping:
                    disturbed = set()
                    run_begin = r.i
                looping = nl
        elif r.k == ">":
            calls[r.id] = r
            if r.op == "unstash":
                unstash += 1
        elif r.k == "<":
            c = calls.pop(r.id, None)
            if c is None:
                continue
            if c.op == "unstash":
                unstash -= 1
            sl = c.fields.get("slots", [])
            ok = executed(r) and r.ret >= 0
            if c.op in KIND_OF and ok and sl:
                kind, key = KIND_OF[c.op], _key_of(c.op, c.args)
                fl, ud = _flags_ud(c.op, c.args)
                if kind == "task" or kind == "thresh":
                    fl |= SRC_ONESHOT
                reg[(sl[0], kind, key)] = dict(flags=fl, ud=ud, since=r.i, fired=0, running_since=(r.i if st.get(sl[0]) == "R" else None))
                ever.setdefault((sl[0], kind, key), set()).add(ud)
            if c.op in DEREG_OF and ok and sl:
                reg.pop((sl[0], DEREG_OF[c.op], _key_of(c.op, c.args)), None)
            if c.op == "sub" and ok and sl:
                subs_ud.setdefault(sl[0], set()).add(c.args[3])
                if (c.args[2] & SRC_ONESHOT) and c.args[3] != 0:
                    # the token identifies this subscription; every accepted call may arm it (again) once
                    oneshot_subs[(sl[0], c.args[3])] = oneshot_subs.get((sl[0], c.args[3]), 0) + 1
            if c.op == "fd_write" and ok:
                writes.setdefault(c.args[0], []).append(c.i)
            if c.op == "ctx_quit" and ok and executed(r):
                quits.append((r.i, c.args[0]))
                if len(quits) == 1:
                    quit_fd_seen.clear()
            if c.op == "ctx_loop" and executed(r):
                if r.ret < 0 and not any(x.k == "S" and x.ctx.get("loop") == "1" for x in recs[c.i:r.i]) and not any(x.k in ("B",) for x in recs[c.i:r.i]):
                    quits = []          # m_ctx_loop refused (no context / already looping): not a loop run
                else:
                    end_of_run(r.i, r.ret, "loop")
            if c.op == "ctx_dispatch":
                lp = r.fields.get("looping")
                if c.depth == 0 and lp == "1" and r.ret is not None and r.ret >= 0 and looping:
                    batch_hist[min(r.ret, 65)] = batch_hist.get(min(r.ret, 65), 0) + 1
                if c.depth == 0 and executed(r):
                    nonlocal_q = [q for q in quits if q[0] < c.i]
                    if nonlocal_q and lp == "1" and disp_looping and not quit_flagged[0]:
                        quit_flagged[0] = True
                        bad("quit-ignored", "m_ctx_quit(%d) was accepted at trace line %d, but the m_ctx_dispatch() call made after that still found the loop running and left it running (returned %s)" % (nonlocal_q[0][1], nonlocal_q[0][0], r.ret), r)
                if lp == "0" and disp_looping:
                    end_of_run(r.i, r.ret, "dispatch")
                disp_looping = lp == "1"
        elif r.k == "V" and r.kind != "ps":
            if unstash:
                continue
            m = r.slot
            kind = r.kind
            key = _evt_key(r)
            ud = int(r.fields.get("ud", "0"))
            if stats is not None:
                stats["events_" + kind] = stats.get("events_" + kind, 0) + 1
            if kind in ("thresh", "unknown"):
                continue
            if kind == "fd" and quits and loop_mode and not quit_flagged[0]:
                kq = (m, key, ud)
                quit_fd_seen[kq] = quit_fd_seen.get(kq, 0) + 1
                if quit_fd_seen[kq] >= 2:
                    quit_flagged[0] = True
                    bad("quit-ignored", "m_ctx_quit(%d) was accepted at trace line %d, but the loop went on polling: descriptor source %s of module %d was reported %d times after it (one poll batch reports a descriptor once)" % (quits[0][1], quits[0][0], key, m, quit_fd_seen[kq]), r)
            if kind == "fd" and key < 0:
                # a source registered with M_SRC_DUP reports the library's duplicate: identify it by its user-data token
                cand = [k for k, e in reg.items() if k[0] == m and k[1] == "fd" and (e["flags"] & SRC_DUP) and e["ud"] == ud]
                if cand:
                    key = cand[0][2]
            if kind == "fd" and key < 0:
                if any(k[0] == m and k[1] == "fd" for k in ever):
                    continue        # (dup registered earlier and already gone: not judged)
                bad("event-from-unregistered-source", "module %d received a descriptor event for raw fd %s which is no descriptor it registered" % (m, r.fields.get("raw")), r)
                continue
            e = reg.get((m, kind, key))
            if e is None:
                if (m, kind, key) not in ever:
                    owners = [k[0] for k in ever if k[1] == kind and k[2] == key]
                    bad("event-from-unregistered-source", "module %d received a %s event (key %s) for a source it never registered (registered by: %s)" % (m, kind, key, owners), r)
                continue
            if kind != "task" and ud != e["ud"] and ud not in ever.get((m, kind, key), ()):
                bad("wrong-userdata", "module %d received %s event (key %s) carrying user data token %d, registered with %d" % (m, kind, key, ud, e["ud"]), r)
            e["fired"] += 1
            if e["flags"] & SRC_ONESHOT:
                if e["fired"] > 1:
                    bad("oneshot-fired-twice", "one-shot %s source (key %s) of module %d delivered a second event" % (kind, key, m), r)
                else:
                    e["dead"] = True
            if kind == "fd":
                fd_events.setdefault((m, key), []).append(r.i)
            if kind == "task":
                pass
        elif r.k == "V" and r.kind == "ps" and not unstash:
            ud = int(r.fields.get("ud", "0"))
            topic = r.fields.get("topic", "-1:-").split(":", 1)[1]
            if topic != "-" and (r.slot, ud) in oneshot_subs:
                oneshot_fired[(r.slot, ud)] = oneshot_fired.get((r.slot, ud), 0) + 1
                if stats is not None:
                    stats["oneshot_subscription_deliveries"] = stats.get("oneshot_subscription_deliveries", 0) + 1
                if oneshot_fired[(r.slot, ud)] > oneshot_subs[(r.slot, ud)]:
                    bad("oneshot-fired-twice", "module %d received message #%d through its one-shot subscription (user data token %d) which was armed %d time(s): a one-shot source fires at most once" % (r.slot, oneshot_fired[(r.slot, ud)], ud, oneshot_subs[(r.slot, ud)]), r)
            if topic == "-" and ud != 0:
                bad("wrong-userdata", "module %d received a told/broadcast message carrying user data token %d (no subscription involved)" % (r.slot, ud), r)
            if topic != "-" and ud != 0 and ud not in subs_ud.get(r.slot, ()):
                bad("wrong-userdata", "module %d received a published message on %s carrying user data token %d which it never gave to a subscription" % (r.slot, topic, ud), r)
            if topic != "-" and ud == 0 and subs_ud.get(r.slot) and 0 not in subs_ud.get(r.slot, ()):
                bad("wrong-userdata", "module %d received a published message on %s without the user data of its subscription (tokens it gave: %s)" % (r.slot, topic, sorted(subs_ud[r.slot])[:6]), r)
    # conservation for pipe descriptors (sources profile: runs end with enough settle steps)
    if conservation:
        V += _conservation(case, F, stats)
    sigs = case.sc.meta.get("signals_must_fire")
    if sigs:
        for sg, owner in sigs.items():
            raised = any(r.k == "<" and r.op == "raise" and r.args[0] == sg and executed(r) and r.ret == 0 for r in recs)
            got = sum(1 for r in recs if r.k == "V" and r.kind == "sgn" and r.slot == owner and r.fields.get("signo") == str(sg))
            if stats is not None:
                stats["signals_judged"] = stats.get("signals_judged", 0) + 1
            if raised and got < 1:
                V.append(("C03/event-lost", "signal %d was sent to the process while module %d, RUNNING, held a signal source for it and the loop ran on: no signal event was delivered" % (sg, owner)))
    # tasks the generator promises enough loop time for
    must = case.sc.meta.get("tasks_must_fire")
    if must:
        fired = {}
        regd = set()
        for r in recs:
            if r.k == "V" and r.kind == "task":
                try:
                    fired[(r.slot, int(r.fields.get("tid", "-1")))] = fired.get((r.slot, int(r.fields.get("tid", "-1"))), 0) + 1
                except ValueError:
                    pass
            elif r.k == "<" and r.op == "task_reg" and executed(r) and r.ret == 0:
                regd.add(r.args[1])
        lost = [t for t, owner in must.items() if t in regd and fired.get((owner, t), 0) == 0]
        twice = [t for t, owner in must.items() if fired.get((owner, t), 0) > 1]
        if stats is not None:
            stats["tasks_judged"] = stats.get("tasks_judged", 0) + len(regd)
        if lost:
            V.append(("C03/event-lost", "%d of %d tasks accepted on a module that stayed RUNNING never completed (no task event) although the loop ran on for long enough: ids %s" % (len(lost), len(regd), sorted(lost)[:8])))
        if twice:
            V.append(("C03/task-event-twice", "task ids %s produced more than one event" % sorted(twice)[:8]))
    return V


def _conservation(case, F, stats):
    """every byte written by the harness into a registered, non one-shot pipe whose owner stayed RUNNING from the write
    to the end of the loop run produced exactly one descriptor event (the handler drains one byte per event)"""
    V = []
    recs = case.recs
    meta = case.sc.meta.get("conserve", {})      # ufd idx -> owner slot (generator's promise: registered before loop, never deregistered)
    if not meta and not case.sc.meta.get("hup") and not case.sc.meta.get("oneshot_fd") and not case.sc.meta.get("err_fd"):
        return V
    w = {}
    ev = {}
    st_bad = set()
    st = {}
    run_over = False
    for r in recs:
        if r.k == "<" and (r.op == "ctx_loop" or (r.op == "ctx_dispatch" and r.fields.get("looping") == "0" and st)):
            run_over = True         # what happens at teardown does not matter for conservation
        if run_over:
            continue
        if r.k == "<" and r.op == "fd_write" and executed(r) and r.ret >= 0:
            w[r.args[0]] = w.get(r.args[0], 0) + 1
        elif r.k == "V" and r.kind == "fd":
            k = int(r.fields.get("idx", -9))
            ev[(r.slot, k)] = ev.get((r.slot, k), 0) + 1
        elif r.k == "S":
            for m, (l, _x) in r.states.items():
                if st.get(m) == "R" and l != "R":
                    st_bad.add(m)
                st[m] = l
    for u, owner in case.sc.meta.get("hup", {}).items():
        if owner in st_bad:
            continue
        n_w, n_e = w.get(u, 0), ev.get((owner, u), 0)
        if stats is not None:
            stats["hangup_fds"] = stats.get("hangup_fds", 0) + 1
        if n_e < n_w:
            V.append(("C03/event-lost", "descriptor %d of module %d: %d tokens were written before its peer closed, the handler received only %d events (a readable descriptor reporting hang-up is still readable)" % (u, owner, n_w, n_e)))
    for u, owner in case.sc.meta.get("err_fd", {}).items():
        if owner in st_bad or not any(r.k == "<" and r.op == "fd_hup" and r.args[0] == u and executed(r) and r.ret >= 0 for r in recs):
            continue
        if stats is not None:
            stats["error_condition_fds_judged"] = stats.get("error_condition_fds_judged", 0) + 1
        if ev.get((owner, u), 0) < 1:
            V.append(("C03/event-lost", "descriptor %d of module %d entered an error condition (its peer went away) while the module was RUNNING and the loop ran on for several batches: its owner was never told" % (u, owner)))
    for u, owner in case.sc.meta.get("oneshot_fd", {}).items():
        if owner in st_bad or not w.get(u, 0):
            continue
        n_e = ev.get((owner, u), 0)
        if stats is not None:
            stats["oneshot_fds_judged"] = stats.get("oneshot_fds_judged", 0) + 1
        if n_e != 1:
            V.append(("C03/event-lost" if n_e < 1 else "C03/oneshot-fired-twice",
                      "one-shot descriptor %d of module %d became readable while the module was RUNNING and the loop ran on for several batches: %d events delivered, expected exactly 1" % (u, owner, n_e)))
    for u, owner in meta.items():
        if owner in st_bad:
            continue
        n_w, n_e = w.get(u, 0), ev.get((owner, u), 0)
        if stats is not None:
            stats["conserved_fd_tokens"] = stats.get("conserved_fd_tokens", 0) + n_e
        if n_e != n_w:
            V.append(("C03/event-lost" if n_e < n_w else "C03/event-duplicated",
                      "descriptor %d of module %d: harness wrote %d tokens, handler received %d events although the module stayed RUNNING and the loop ran on for enough batches" % (u, owner, n_w, n_e)))
    return V


def projection(case):
    """deterministic projection used by the loop-vs-dispatch differential: per module, the sequence of event
    descriptors (payload ids replaced by the per-sender send ordinal)"""
    out = {}
    unstash = 0
    for r in case.recs:
        if r.k == ">" and r.op == "unstash":
            unstash += 1
        elif r.k == "<" and r.op == "unstash":
            unstash -= 1
        elif r.k == "V" and not unstash:
            f = r.fields
            if r.kind == "ps":
                d = ("ps", f.get("sys"), f.get("sender"), f.get("topic", "").split(":", 1)[-1], f.get("ud"))
            elif r.kind == "fd":
                d = ("fd", f.get("idx"), f.get("ud"))
            elif r.kind == "sgn":
                d = ("sgn", f.get("signo"), f.get("ud"))
            else:
                continue
            out.setdefault(r.slot, []).append(d)
    return out


def differential(case_loop, case_disp):
    V = []
    a, b = projection(case_loop), projection(case_disp)
    for m in sorted(set(a) | set(b)):
        la, lb = a.get(m, []), b.get(m, [])
        if sorted(map(str, la)) != sorted(map(str, lb)):
            onlya = [x for x in la if x not in lb][:3]
            onlyb = [x for x in lb if x not in la][:3]
            V.append(("C03/loop-dispatch-differ", "module %d: blocking loop delivered %d events, dispatch loop %d; only in loop: %s; only in dispatch: %s" % (m, len(la), len(lb), onlya, onlyb)))
    return V

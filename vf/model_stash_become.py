"""C16 (stash/unstash) and C17 (become/unbecome handler stack) oracles."""
from vf.model_common import resolve_slots, executed, Facts
from vf.model_pubsub import topic_matches

SRC_LOW, SRC_NORM, SRC_HIGH = 1, 2, 4


def _token(v):
    f = v.fields
    if v.kind == "ps":
        return ("ps", f.get("sys"), f.get("sender"), f.get("topic"), f.get("data"), f.get("ud"))
    if v.kind == "fd":
        return ("fd", f.get("idx"), f.get("ud"), f.get("ts"))
    return (v.kind, tuple(sorted(f.items())))


def walk(case, want16, want17, stats=None):
    recs = case.recs
    resolve_slots(recs)
    F = Facts(case.sc)
    V16, V17 = [], []

    def bad16(key, msg, r=None):
        V16.append(("C16/" + key, msg + ((" (trace line %d: %s)" % (r.i, r.raw[:110])) if r is not None else "")))

    def bad17(key, msg, r=None):
        V17.append(("C17/" + key, msg + ((" (trace line %d: %s)" % (r.i, r.raw[:110])) if r is not None else "")))

    st = {}
    stash = {}          # module -> list of tokens (FIFO)
    hstack = {}         # module -> list of handler indexes
    subs = {}           # module -> {topic idx: flags}
    calls = []          # open calls (records)
    cbs = []            # open callbacks: dict(rec, tokens=[], prios=[])
    redelivered = {}    # module -> {token: count}

    for r in recs:
        if r.k == "S":
            for m, (l, _n) in r.states.items():
                if st.get(m) != l and l in ("S", "Z"):
                    if stash.get(m) and stats is not None:
                        stats["stash_discarded_at_stop"] = stats.get("stash_discarded_at_stop", 0) + len(stash[m])
                    stash[m] = []
                    hstack[m] = []
                    subs.pop(m, None)
                st[m] = l
        elif r.k == ">":
            calls.append(r)
            if r.op == "unstash":
                sl = r.fields.get("slots", [])
                r.fields["inv"] = []          # nested handler invocations of the target directly caused by this call
                r.fields["state_before"] = st.get(sl[0]) if sl else None
                n = r.args[1]
                have = list(stash.get(sl[0], [])) if sl else []
                k = len(have) if n < 0 else min(n, len(have))
                r.fields["expect"] = have[:k]
                if sl and st.get(sl[0]) == "R" and n != 0:
                    # the events leave the stash before the nested invocation runs (it may stash / unstash again)
                    stash[sl[0]] = have[k:]
                    r.fields["taken"] = True
        elif r.k == "<":
            c = None
            for j in range(len(calls) - 1, -1, -1):
                if calls[j].id == r.id:
                    c = calls.pop(j)
                    break
            if c is None or not executed(r):
                continue
            sl = c.fields.get("slots", [])
            m = sl[0] if sl else None
            if c.op == "sub" and r.ret >= 0:
                subs.setdefault(m, {})[c.args[1]] = c.args[2]
            elif c.op == "unsub" and r.ret >= 0:
                subs.get(m, {}).pop(c.args[1], None)
            elif c.op == "stash" and m in st:
                cb = c.fields.get("_cb")
                k = c.args[1]
                state = c.fields.get("_state")
                if cb is None or k >= len(cb["tokens"]):
                    continue            # harness refused (no such event)
                tok, prio = cb["tokens"][k], cb["prios"][k]
                if stats is not None:
                    stats["stash_calls"] = stats.get("stash_calls", 0) + 1
                if state != "R":
                    if r.ret >= 0:
                        bad16("stash-accepted-while-not-running", "m_mod_stash on module %d in state %s returned %d" % (m, state, r.ret), r)
                elif prio == "H":
                    if r.ret >= 0:
                        bad16("high-priority-event-stashed", "m_mod_stash accepted a high-priority event %s" % (tok,), r)
                elif r.ret == 0:
                    stash.setdefault(m, []).append(tok)
                elif r.ret < 0 and prio in ("N", "L") and r.ret not in (-11,):
                    bad16("stash-refused", "m_mod_stash of a stashable event on RUNNING module %d returned %d" % (m, r.ret), r)
            elif c.op == "unstash" and m in st:
                state = c.fields.get("state_before")
                exp = c.fields.get("expect", [])
                inv = c.fields.get("inv", [])
                n = c.args[1]
                if stats is not None:
                    stats["unstash_calls"] = stats.get("unstash_calls", 0) + 1
                    stats["unstash_n_%s" % ("all" if n < 0 else "gt" if n > len(stash.get(m, [])) else "eq" if n == len(stash.get(m, [])) else "lt")] = stats.get("unstash_n_%s" % ("all" if n < 0 else "gt" if n > len(stash.get(m, [])) else "eq" if n == len(stash.get(m, [])) else "lt"), 0) + 1
                if state != "R" or n == 0:
                    if r.ret >= 0 and state != "R":
                        bad16("unstash-accepted-while-not-running", "m_mod_unstash on module %d in state %s returned %d" % (m, state, r.ret), r)
                    if inv and state != "R":
                        bad16("unstash-delivered-while-not-running", "m_mod_unstash on module %d in state %s invoked the handler" % (m, state), r)
                    continue
                if r.ret < 0:
                    oom = r.ret == -12 and r.fields.get("fault") == "1"     # injected allocation failure: a clean refusal
                    if oom and stats is not None:
                        stats["unstash_refused_for_lack_of_memory"] = stats.get("unstash_refused_for_lack_of_memory", 0) + 1
                    if oom and inv:
                        bad16("unstash-refused-but-delivered", "m_mod_unstash on module %d returned -ENOMEM but invoked the handler" % m, r)
                    if r.ret != -11 and not oom:       # token bucket
                        bad16("unstash-refused", "m_mod_unstash(%d) on RUNNING module %d returned %d" % (n, m, r.ret), r)
                    if c.fields.get("taken"):
                        stash[m] = exp + stash.get(m, [])
                    continue
                if r.ret != len(exp):
                    bad16("unstash-count", "m_mod_unstash(%s) on module %d returned %d, expected min(n, stashed) = %d" % ("SIZE_MAX" if n < 0 else n, m, r.ret, len(exp)), r)
                got = [t for i_ in inv for t in i_["tokens"]]
                if len(exp) == 0:
                    if inv:
                        bad16("unstash-empty-invocation", "m_mod_unstash on module %d with nothing to hand over invoked the handler" % m, r)
                else:
                    if len(inv) != 1:
                        bad16("unstash-invocations", "m_mod_unstash(%s) on module %d produced %d handler invocations, expected exactly one" % ("SIZE_MAX" if n < 0 else n, m, len(inv)), r)
                    if got != exp:
                        bad16("unstash-wrong-events", "m_mod_unstash(%s) on module %d handed over %s; the oldest stashed events, in stash order, are %s" % ("SIZE_MAX" if n < 0 else n, m, [t[4] if t[0] == "ps" else t for t in got], [t[4] if t[0] == "ps" else t for t in exp]), r)
            elif c.op == "become" and m in st:
                state = c.fields.get("_state")
                if state != "R":
                    if r.ret >= 0:
                        bad17("become-accepted-while-not-running", "m_mod_become on module %d in state %s returned %d" % (m, state, r.ret), r)
                elif r.ret == 0:
                    hstack.setdefault(m, []).append(c.args[1] & 3)
                elif r.ret != -11 and not (r.ret == -12 and r.fields.get("fault") == "1"):
                    bad17("become-refused", "m_mod_become on RUNNING module %d returned %d" % (m, r.ret), r)
                if stats is not None:
                    stats["become_calls"] = stats.get("become_calls", 0) + 1
            elif c.op == "unbecome" and m in st:
                state = c.fields.get("_state")
                if stats is not None:
                    stats["unbecome_calls"] = stats.get("unbecome_calls", 0) + 1
                if state != "R":
                    if r.ret >= 0:
                        bad17("unbecome-accepted-while-not-running", "m_mod_unbecome on module %d in state %s returned %d" % (m, state, r.ret), r)
                elif hstack.get(m):
                    if r.ret == 0:
                        hstack[m].pop()
                    elif r.ret != -11:
                        bad17("unbecome-refused", "m_mod_unbecome on RUNNING module %d with %d handlers installed returned %d" % (m, len(hstack[m]), r.ret), r)
                else:
                    if r.ret >= 0:
                        bad17("unbecome-on-empty-stack", "m_mod_unbecome on module %d with no handler installed returned %d (must fail)" % (m, r.ret), r)
        elif r.k == "B":
            cb = dict(rec=r, tokens=[], prios=[])
            cbs.append(cb)
            if r.kind == "evt":
                m = r.slot
                top = hstack.get(m, [])[-1] if hstack.get(m) else 0
                if stats is not None:
                    stats["handler_invocations"] = stats.get("handler_invocations", 0) + 1
                    if hstack.get(m):
                        stats["invocations_with_installed_handler"] = stats.get("invocations_with_installed_handler", 0) + 1
                if m in st and r.hidx != top:
                    bad17("wrong-handler", "invocation of module %d went to handler %d; installed stack is %s, so handler %d is current" % (m, r.hidx, hstack.get(m, []), top), r)
                # directly nested in an unstash call on that module?
                if calls and calls[-1].op == "unstash" and calls[-1].fields.get("slots", [None])[0] == m and calls[-1].depth == r.depth - 1:
                    calls[-1].fields["inv"].append(cb)
        elif r.k == "E":
            if cbs:
                cbs.pop()
        elif r.k == "V" and cbs:
            cb = cbs[-1]
            tok = _token(r)
            prio = "N"
            if r.kind == "fd":
                prio = "H"
            elif r.kind == "ps":
                t = r.fields.get("topic", "-1:-").split(":", 1)[1]
                if t != "-":
                    ud = r.fields.get("ud")
                    fls = [fl for tix, fl in subs.get(r.slot, {}).items() if topic_matches(F.topics[tix], t)]
                    if any(fl & SRC_HIGH for fl in fls) and not all(fl & SRC_HIGH for fl in fls):
                        prio = "?"
                    elif fls and all(fl & SRC_HIGH for fl in fls):
                        prio = "H"
                    elif fls and any(fl & SRC_LOW for fl in fls):
                        prio = "L"
            elif r.kind in ("tmr", "sgn", "task", "thresh", "path", "pid"):
                prio = "?"
            cb["tokens"].append(tok)
            cb["prios"].append(prio)
        # remember the callback / state context of stash / become calls at call time
        if r.k == ">" and r.op in ("stash", "become", "unbecome"):
            sl = r.fields.get("slots", [])
            r.fields["_state"] = st.get(sl[0]) if sl else None
            if r.op == "stash":
                # the event index refers to the batch of the innermost *event* callback
                r.fields["_cb"] = cbs[-1] if cbs and cbs[-1]["rec"].kind == "evt" else None
    return V16, V17


def check_c16(case, stats=None):
    return walk(case, True, False, stats)[0]


def check_c17(case, stats=None):
    return walk(case, False, True, stats)[1]
